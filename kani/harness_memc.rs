
// ===== appended by /verif/kani/inject.py (never committed to /repo) =====
#[cfg(kani)]
mod verif_memc {
    use super::*;
    use crate::cache::cache::{impl_details::CacheImplDetails, CachePredicate, CacheReadOnlyView, RemoveIfResult};
    use std::cell::{Cell, RefCell};

    // One-slot stand-in for the `Cache` below MemcStore.  It obeys the Cache contract that Verus proves for
    // MemoryStore (unit server): get = lookup, set with cas==0 / matching cas stores the record and acknowledges a
    // non-zero CAS.  Only add_delta's own code, str::from_utf8, parse::<u64> and u64::to_string are symbolic.
    pub struct OneSlot {
        pub slot: RefCell<Option<Record>>,
        pub sets: Cell<u32>,
        pub gets: Cell<u32>,
        pub last_req_cas: Cell<u64>,
        pub ack: u64,
        pub set_fails: bool,
    }
    unsafe impl Sync for OneSlot {}
    unsafe impl Send for OneSlot {}
    impl CacheImplDetails for OneSlot {
        fn get_by_key(&self, _key: &KeyType) -> Result<Record> {
            match &*self.slot.borrow() { Some(r) => Ok(r.clone()), None => Err(CacheError::NotFound) }
        }
        fn check_if_expired(&self, _key: &KeyType, _record: &Record) -> bool { false }
    }
    impl Cache for OneSlot {
        fn get(&self, key: &KeyType) -> Result<Record> { self.gets.set(self.gets.get() + 1); self.get_by_key(key) }
        fn set(&self, _key: KeyType, mut record: Record) -> Result<SetStatus> {
            self.sets.set(self.sets.get() + 1);
            self.last_req_cas.set(record.header.cas);
            if self.set_fails { return Err(CacheError::KeyExists); }
            record.header.cas = self.ack;
            *self.slot.borrow_mut() = Some(record);
            Ok(SetStatus { cas: self.ack })
        }
        fn delete(&self, _key: KeyType, _header: Meta) -> Result<Record> { unreachable!() }
        fn flush(&self, _header: Meta) { unreachable!() }
        fn len(&self) -> usize { unreachable!() }
        fn is_empty(&self) -> bool { unreachable!() }
        fn as_read_only(&self) -> Box<dyn CacheReadOnlyView> { unreachable!() }
        fn remove_if(&self, _f: &mut CachePredicate) -> RemoveIfResult { unreachable!() }
        fn remove(&self, _key: &KeyType) -> Option<(KeyType, Record)> { unreachable!() }
    }

    const NDIG: usize = 3;

    fn dec_u128(b: &[u8]) -> Option<u128> {
        if b.is_empty() { return None; }
        let mut v: u128 = 0;
        let mut i = 0;
        while i < b.len() {
            if b[i] < b'0' || b[i] > b'9' { return None; }
            v = v * 10 + (b[i] - b'0') as u128;
            i += 1;
        }
        Some(v)
    }

    // C07 numeric rule, C05/C07 flags+ttl kept, C02 request CAS passed on.  Stored text: 1..=NDIG decimal digits
    // (leading zeros included); delta, CAS, opaque, expiration: full domain; both directions.   BOUNDED: text length.
    #[kani::proof]
    #[kani::unwind(24)]
    fn add_delta_numeric() {
        let n: usize = kani::any();
        kani::assume(n >= 1 && n <= NDIG);
        let digits: [u8; NDIG] = kani::any();
        let mut k = 0;
        while k < NDIG { kani::assume(digits[k] >= b'0' && digits[k] <= b'9'); k += 1; }
        let flags: u32 = kani::any();
        let ttl: u32 = kani::any();
        let stored = Record::new(Bytes::copy_from_slice(&digits[..n]), kani::any(), flags, ttl);
        let ack: u64 = kani::any();
        kani::assume(ack != 0);
        let slot = Arc::new(OneSlot { slot: RefCell::new(Some(stored)), sets: Cell::new(0), gets: Cell::new(0), last_req_cas: Cell::new(0), ack, set_fails: kani::any() });
        let store = MemcStore::new(slot.clone());
        let delta: u64 = kani::any();
        let incr: bool = kani::any();
        let req_cas: u64 = kani::any();
        let header = Meta::new(req_cas, kani::any(), kani::any());
        let v = dec_u128(&digits[..n]).unwrap() as u64;
        let expect = if incr { v.wrapping_add(delta) } else { v.saturating_sub(delta) };
        let r = store.add_delta(header, Bytes::from_static(b"k"), DeltaParam { delta, value: kani::any() }, incr);
        assert!(slot.sets.get() == 1);
        assert!(slot.last_req_cas.get() == req_cas);
        match r {
            Ok(d) => {
                assert!(!slot.set_fails);
                assert!(d.value == expect);
                assert!(d.cas == ack);
                let rec = slot.slot.borrow().clone().unwrap();
                assert!(rec.header.flags == flags);
                assert!(rec.header.time_to_live == ttl);
                assert!(dec_u128(&rec.value[..]) == Some(expect as u128));
                assert!(rec.value.len() == 1 || rec.value[0] != b'0');
            }
            Err(e) => { assert!(slot.set_fails); assert!(e == CacheError::KeyExists); }
        }
    }

    // C07 creation rule
    #[kani::proof]
    #[kani::unwind(8)]
    fn add_delta_absent() {
        let ack: u64 = kani::any();
        kani::assume(ack != 0);
        let slot = Arc::new(OneSlot { slot: RefCell::new(None), sets: Cell::new(0), gets: Cell::new(0), last_req_cas: Cell::new(0), ack, set_fails: false });
        let store = MemcStore::new(slot.clone());
        let initial: u64 = kani::any();
        let exp: u32 = kani::any();
        let header = Meta::new(kani::any(), kani::any(), exp);
        let r = store.add_delta(header, Bytes::from_static(b"k"), DeltaParam { delta: kani::any(), value: initial }, kani::any());
        if exp == 0xffff_ffff {
            assert!(r.is_err());
            assert!(slot.sets.get() == 0);
            assert!(slot.slot.borrow().is_none());
        } else {
            let d = r.unwrap();
            assert!(d.value == initial && d.cas == ack);
            let rec = slot.slot.borrow().clone().unwrap();
            assert!(rec.header.time_to_live == exp);
            assert!(slot.last_req_cas.get() == 0);
            assert!(dec_u128(&rec.value[..]) == Some(initial as u128));
        }
    }

    // C07 error rule: a stored text that is not `+?[0-9]+` (here: up to NDIG arbitrary bytes with at least one
    // byte that is neither a digit nor a leading '+') is refused and nothing is written.  BOUNDED: text length.
    #[kani::proof]
    #[kani::unwind(24)]
    fn add_delta_non_numeric() {
        let n: usize = kani::any();
        kani::assume(n <= NDIG);
        let bytes: [u8; NDIG] = kani::any();
        let mut bad = n == 0;
        let mut k = 0;
        while k < NDIG {
            if k < n {
                let c = bytes[k];
                let digit = c >= b'0' && c <= b'9';
                if !(digit || (k == 0 && c == b'+' && n > 1)) { bad = true; }
            }
            k += 1;
        }
        kani::assume(bad);
        let stored = Record::new(Bytes::copy_from_slice(&bytes[..n]), kani::any(), kani::any(), kani::any());
        let slot = Arc::new(OneSlot { slot: RefCell::new(Some(stored)), sets: Cell::new(0), gets: Cell::new(0), last_req_cas: Cell::new(0), ack: 7, set_fails: false });
        let store = MemcStore::new(slot.clone());
        let header = Meta::new(kani::any(), kani::any(), kani::any());
        let r = store.add_delta(header, Bytes::from_static(b"k"), DeltaParam { delta: kani::any(), value: kani::any() }, kani::any());
        assert!(r.is_err());
        assert!(r.unwrap_err() == CacheError::ArithOnNonNumeric);
        assert!(slot.sets.get() == 0);
    }
}
