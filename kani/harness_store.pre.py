def rewrite(src):
    # the only edit outside the appended module: the dashmap imports are redirected to the sequential stand-in
    # (Kani's compiler panics on dashmap/hashbrown - DESIGN section 9, spike 13)
    a = "use dashmap::mapref::multiple::RefMulti;\n"
    b = "use dashmap::{DashMap, ReadOnlyView};\n"
    assert a in src and b in src, "dashmap imports of memory_store/store.rs changed"
    src = src.replace(a, "use self::verif_standin::RefMulti;\n").replace(b, "use self::verif_standin::{DashMap, ReadOnlyView};\n")
    return src
