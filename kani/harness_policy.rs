
// ===== appended by /verif/kani/inject.py (never committed to /repo) =====
#[cfg(kani)]
mod verif_policy {
    use super::*;
    use crate::memory_store::store::MemoryStore;
    use crate::server::timer::Timer;
    use bytes::Bytes;
    struct FixedTimer;
    impl Timer for FixedTimer { fn timestamp(&self) -> u64 { 0 } }

    // SmallRng::from_entropy() ends in getrandom::getrandom: replaced by a fixed byte pattern (ASSUMED: any index in
    // range may be drawn; this harness explores the one that pattern gives)
    fn fixed_entropy(dest: &mut [u8]) -> std::result::Result<(), getrandom::Error> {
        unsafe { std::ptr::write_bytes(dest.as_mut_ptr(), 0x5a, dest.len()); }   // loop-free (memset)
        Ok(())
    }

    // C14/C16, BOUNDED (one concrete workload, one fixed entropy pattern): under a 100-byte limit the same 50-byte
    // record is stored four times, then a record larger than the limit and one more.  Every store returns (unwinding
    // assertions: the eviction loop terminates) and afterwards the stored bytes are at most limit + the record just written.
    #[kani::proof]
    #[kani::unwind(12)]
    #[kani::stub(getrandom::getrandom, fixed_entropy)]
    fn policy_evict_concrete() {
        let inner = Arc::new(MemoryStore::new(Arc::new(FixedTimer)));
        let policy = RandomPolicy::new(inner.clone(), 100);
        let v50 = Bytes::from_static(&[7u8; 26]);      // 24 + 26 = 50 bytes charged
        let big = Bytes::from_static(&[9u8; 100]);     // 124 bytes: larger than the limit
        let mut i = 0;
        while i < 4 {
            let r = policy.set(Bytes::from_static(b"k"), Record::new(v50.clone(), 0, 0, 0));
            assert!(r.is_ok());
            i += 1;
        }
        assert!(policy.set(Bytes::from_static(b"big"), Record::new(big.clone(), 0, 0, 0)).is_ok());
        assert!(policy.set(Bytes::from_static(b"j"), Record::new(v50.clone(), 0, 0, 0)).is_ok());
        // the record just written is present (eviction never removes the record being written)
        assert!(inner.get(&Bytes::from_static(b"j")).is_ok());
        assert!(inner.len() <= 2);
    }
}
