#!/usr/bin/env python3
"""Make a scratch copy of /repo (outside /repo and /verif), append harness modules under cfg(kani), run one
Kani harness with a time limit, delete the scratch copy.  Usage: inject.py <harness> [timeout_s] [extra cargo-kani args]"""
import sys, os, shutil, subprocess, tempfile, json, time
ROOT = os.path.dirname(os.path.dirname(os.path.abspath(__file__)))
HARNESS_FILES = {   # harness module file -> repo file it is appended to
    'harness_memc.rs': 'memcrs/src/memcache/store.rs',
    'harness_store.rs': 'memcrs/src/memory_store/store.rs',
    'harness_tables.rs': 'memcrs/src/protocol/binary_codec.rs',
    'harness_policy.rs': 'memcrs/src/memcache/random_policy.rs',
}
def run(harness, timeout=600, extra=None, keep=False):
    repo = os.environ.get('VERIF_REPO', '/repo')
    tmp = tempfile.mkdtemp(prefix='vf-kani-')
    try:
        for item in ('Cargo.toml', 'Cargo.lock'):
            shutil.copy(os.path.join(repo, item), os.path.join(tmp, item))
        shutil.copytree(os.path.join(repo, 'memcrs'), os.path.join(tmp, 'memcrs'), ignore=shutil.ignore_patterns('target', 'fuzz'))
        for hf, target in HARNESS_FILES.items():
            p = os.path.join(ROOT, 'kani', hf)
            if not os.path.exists(p): continue
            pre = os.path.join(ROOT, 'kani', hf.replace('.rs', '.pre.py'))
            tp = os.path.join(tmp, target)
            src = open(tp).read()
            if os.path.exists(pre):
                ns = {}
                exec(open(pre).read(), ns)
                src = ns['rewrite'](src)
            open(tp, 'w').write(src + open(p).read())
        # the policy harness stubs getrandom::getrandom, which has to be a DIRECT dependency for the stub path to resolve
        ct = os.path.join(tmp, 'memcrs', 'Cargo.toml')
        c = open(ct).read()
        if 'getrandom' not in c:
            c = c.replace('[dependencies]', '[dependencies]\ngetrandom = "0.2"', 1)
            open(ct, 'w').write(c)
        os.makedirs(os.path.join(tmp, '.cargo'), exist_ok=True)
        open(os.path.join(tmp, '.cargo', 'config.toml'), 'w').write('[net]\noffline = true\n')
        env = dict(os.environ, CARGO_NET_OFFLINE='true', CARGO_TARGET_DIR=os.path.join(ROOT, 'build', 'kani-target'))
        cmd = ['cargo', 'kani', '-p', 'memcrs', '--harness', harness, '-Z', 'function-contracts', '-Z', 'stubbing'] + (extra or [])
        t0 = time.time()
        try:
            r = subprocess.run(cmd, cwd=tmp, env=env, capture_output=True, text=True, timeout=timeout)
            out = r.stdout + '\n' + r.stderr
            rc = r.returncode
        except subprocess.TimeoutExpired as e:
            out = (e.stdout.decode() if isinstance(e.stdout, bytes) else (e.stdout or '')) + '\nTIMEOUT'
            rc = 124
            subprocess.run(['pkill', '-f', 'cbmc'], capture_output=True)
        return {'cmd': ' '.join(cmd), 'rc': rc, 'out': out, 'wall': time.time() - t0}
    finally:
        if not keep:
            shutil.rmtree(tmp, ignore_errors=True)

if __name__ == '__main__':
    h = sys.argv[1]
    to = int(sys.argv[2]) if len(sys.argv) > 2 else 600
    r = run(h, to, sys.argv[3:])
    print(r['out'][-6000:])
    print('rc=%s wall=%.0fs' % (r['rc'], r['wall']))
