
// ===== appended by /verif/kani/inject.py (never committed to /repo) =====
#[cfg(kani)]
pub mod verif_standin {
    //! Sequential, array-backed stand-in for dashmap::DashMap (capacity 3, no heap).  `&self` methods like the
    //! real one; live guards are counted and every call that takes a lock asserts that none is alive (dashmap's
    //! documented deadlock condition, C16); every map access is counted.
    use std::cell::{Cell, UnsafeCell};
    use std::marker::PhantomData;
    use std::ops::{Deref, DerefMut};
    pub const CAP: usize = 3;
    pub struct DashMap<K, V> {
        slots: UnsafeCell<[Option<(K, V)>; CAP]>,
        pub guards: Cell<usize>,
        pub accesses: Cell<usize>,
    }
    unsafe impl<K, V> Sync for DashMap<K, V> {}
    unsafe impl<K, V> Send for DashMap<K, V> {}
    pub struct Ref<'a, K, V> { map: &'a DashMap<K, V>, v: &'a V }
    impl<'a, K, V> Deref for Ref<'a, K, V> { type Target = V; fn deref(&self) -> &V { self.v } }
    impl<'a, K, V> Drop for Ref<'a, K, V> { fn drop(&mut self) { self.map.guards.set(self.map.guards.get() - 1); } }
    pub struct RefMut<'a, K, V> { map: &'a DashMap<K, V>, v: &'a mut V }
    impl<'a, K, V> Deref for RefMut<'a, K, V> { type Target = V; fn deref(&self) -> &V { self.v } }
    impl<'a, K, V> DerefMut for RefMut<'a, K, V> { fn deref_mut(&mut self) -> &mut V { self.v } }
    impl<'a, K, V> Drop for RefMut<'a, K, V> { fn drop(&mut self) { self.map.guards.set(self.map.guards.get() - 1); } }
    pub struct RefMulti<'a, K, V> { map: &'a DashMap<K, V>, k: &'a K, v: &'a V }
    impl<'a, K, V> RefMulti<'a, K, V> { pub fn key(&self) -> &K { self.k } pub fn value(&self) -> &V { self.v } }
    impl<'a, K, V> Drop for RefMulti<'a, K, V> { fn drop(&mut self) { self.map.guards.set(self.map.guards.get() - 1); } }
    pub struct Iter<'a, K, V> { map: &'a DashMap<K, V>, i: usize }
    impl<'a, K, V> Iterator for Iter<'a, K, V> {
        type Item = RefMulti<'a, K, V>;
        fn next(&mut self) -> Option<RefMulti<'a, K, V>> {
            while self.i < CAP {
                let i = self.i; self.i += 1;
                let slots = unsafe { &*self.map.slots.get() };
                if let Some((k, v)) = &slots[i] {
                    self.map.guards.set(self.map.guards.get() + 1);
                    return Some(RefMulti { map: self.map, k, v });
                }
            }
            None
        }
    }
    pub struct ReadOnlyView<K, V> { n: usize, _p: PhantomData<(K, V)> }
    impl<K, V> ReadOnlyView<K, V> {
        pub fn len(&self) -> usize { self.n }
        pub fn is_empty(&self) -> bool { self.n == 0 }
        pub fn keys(&self) -> std::iter::Empty<&K> { std::iter::empty() }
    }
    impl<K: Eq, V> DashMap<K, V> {
        pub fn new() -> Self { DashMap { slots: UnsafeCell::new([None, None, None]), guards: Cell::new(0), accesses: Cell::new(0) } }
        fn lock(&self) { assert!(self.guards.get() == 0, "map call while a guard is alive (dashmap may deadlock)"); self.accesses.set(self.accesses.get() + 1); }
        fn find(&self, k: &K) -> Option<usize> {
            let slots = unsafe { &*self.slots.get() };
            let mut i = 0;
            while i < CAP { if let Some((kk, _)) = &slots[i] { if kk == k { return Some(i); } } i += 1; }
            None
        }
        pub fn get(&self, k: &K) -> Option<Ref<'_, K, V>> {
            self.lock();
            match self.find(k) {
                Some(i) => { self.guards.set(self.guards.get() + 1); let slots = unsafe { &*self.slots.get() }; Some(Ref { map: self, v: &slots[i].as_ref().unwrap().1 }) }
                None => None,
            }
        }
        pub fn get_mut(&self, k: &K) -> Option<RefMut<'_, K, V>> {
            self.lock();
            match self.find(k) {
                Some(i) => { self.guards.set(self.guards.get() + 1); let slots = unsafe { &mut *self.slots.get() }; Some(RefMut { map: self, v: &mut slots[i].as_mut().unwrap().1 }) }
                None => None,
            }
        }
        pub fn insert(&self, k: K, v: V) -> Option<V> {
            self.lock();
            let slots = unsafe { &mut *self.slots.get() };
            if let Some(i) = self.find(&k) { return slots[i].replace((k, v)).map(|x| x.1); }
            let mut i = 0;
            while i < CAP { if slots[i].is_none() { slots[i] = Some((k, v)); return None; } i += 1; }
            panic!("stand-in capacity exceeded");
        }
        pub fn remove(&self, k: &K) -> Option<(K, V)> {
            self.lock();
            let slots = unsafe { &mut *self.slots.get() };
            match self.find(k) { Some(i) => slots[i].take(), None => None }
        }
        pub fn remove_if(&self, k: &K, f: impl FnOnce(&K, &V) -> bool) -> Option<(K, V)> {
            self.lock();
            let slots = unsafe { &mut *self.slots.get() };
            match self.find(k) {
                Some(i) => { let hit = { let e = slots[i].as_ref().unwrap(); f(&e.0, &e.1) }; if hit { slots[i].take() } else { None } }
                None => None,
            }
        }
        pub fn alter_all(&self, mut f: impl FnMut(&K, V) -> V) {
            self.lock();
            let slots = unsafe { &mut *self.slots.get() };
            let mut i = 0;
            while i < CAP { if let Some((k, v)) = slots[i].take() { let nv = f(&k, v); slots[i] = Some((k, nv)); } i += 1; }
        }
        pub fn clear(&self) { self.lock(); let slots = unsafe { &mut *self.slots.get() }; let mut i = 0; while i < CAP { slots[i] = None; i += 1; } }
        pub fn len(&self) -> usize { self.lock(); let slots = unsafe { &*self.slots.get() }; let mut n = 0; let mut i = 0; while i < CAP { if slots[i].is_some() { n += 1; } i += 1; } n }
        pub fn is_empty(&self) -> bool { self.len() == 0 }
        pub fn iter(&self) -> Iter<'_, K, V> { self.lock(); Iter { map: self, i: 0 } }
        pub fn into_read_only(self) -> ReadOnlyView<K, V> { let n = self.len(); ReadOnlyView { n, _p: PhantomData } }
    }
    impl<K: Eq + Clone, V: Clone> Clone for DashMap<K, V> {
        fn clone(&self) -> Self {
            let m = DashMap::new();
            let slots = unsafe { &*self.slots.get() };
            let mut i = 0;
            while i < CAP { if let Some((k, v)) = &slots[i] { m.insert(k.clone(), v.clone()); } i += 1; }
            m
        }
    }
}

#[cfg(kani)]
mod verif_store {
    use super::*;
    use bytes::Bytes;
    struct FixedTimer(u64);
    impl timer::Timer for FixedTimer { fn timestamp(&self) -> u64 { self.0 } }

    fn any_record(value: &'static [u8]) -> Record {
        let mut r = Record::new(Bytes::from_static(value), kani::any(), kani::any(), kani::any());
        r.header.timestamp = kani::any();
        r
    }

    // C02/C08 (and the delete half of C03/C16): for ALL u64 header CAS values and all stored meta data:
    //   key absent                      -> NotFound, nothing changes
    //   cas == 0 or cas == stored.cas   -> the record is removed and returned
    //   otherwise                       -> KeyExists, nothing changes
    // the other key's record is untouched; exactly one map access; no map call under a live guard.
    // Complete: loop-free in the quantified scalars (full-domain symbolic u64/u32), keys and values fixed.
    #[kani::proof]
    #[kani::unwind(5)]
    fn store_delete() {
        let store = MemoryStore::new(Arc::new(FixedTimer(kani::any())));
        let ka = Bytes::from_static(b"a");
        let kb = Bytes::from_static(b"b");
        let a_present: bool = kani::any();
        let ra = any_record(b"va");
        let rb = any_record(b"vb");
        let (a_cas, a_flags, a_ttl, a_ts) = (ra.header.cas, ra.header.flags, ra.header.time_to_live, ra.header.timestamp);
        let (b_cas, b_flags, b_ttl, b_ts) = (rb.header.cas, rb.header.flags, rb.header.time_to_live, rb.header.timestamp);
        if a_present { store.memory.insert(ka.clone(), ra); }
        store.memory.insert(kb.clone(), rb);
        let req_cas: u64 = kani::any();
        let before = store.memory.accesses.get();
        let r = store.delete(ka.clone(), CacheMetaData::new(req_cas, kani::any(), kani::any()));
        assert!(store.memory.accesses.get() == before + 1);
        assert!(store.memory.guards.get() == 0);
        if !a_present {
            assert!(r == Err(CacheError::NotFound));
        } else if req_cas == 0 || req_cas == a_cas {
            let rec = r.unwrap();
            assert!(rec.header.cas == a_cas && rec.header.flags == a_flags && rec.header.time_to_live == a_ttl && rec.header.timestamp == a_ts);
            assert!(rec.value[..] == b"va"[..]);
            assert!(store.memory.get(&ka).is_none());
        } else {
            assert!(r == Err(CacheError::KeyExists));
            let g = store.memory.get(&ka).unwrap();
            assert!(g.header.cas == a_cas && g.header.flags == a_flags && g.header.time_to_live == a_ttl && g.header.timestamp == a_ts);
        }
        let g = store.memory.get(&kb).unwrap();
        assert!(g.header.cas == b_cas && g.header.flags == b_flags && g.header.time_to_live == b_ttl && g.header.timestamp == b_ts);
        assert!(g.value[..] == b"vb"[..]);
        kani::cover!(a_present && req_cas != 0 && req_cas != a_cas, "cas mismatch branch reachable");
        kani::cover!(a_present && req_cas == a_cas && req_cas != 0, "cas match branch reachable");
    }

    // C16 (and the remove_if premise of C14): remove_if removes exactly the entries the predicate selects, returns
    // them, calls the predicate once per entry, and never calls into the map while an iteration guard is alive
    // (the stand-in asserts guards == 0 on every locking call).  BOUNDED: at most 2 entries.
    #[kani::proof]
    #[kani::unwind(6)]
    fn store_remove_if() {
        let store = MemoryStore::new(Arc::new(FixedTimer(0)));
        let ka = Bytes::from_static(b"a");
        let kb = Bytes::from_static(b"b");
        let a_present: bool = kani::any();
        if a_present { store.memory.insert(ka.clone(), any_record(b"va")); }
        store.memory.insert(kb.clone(), any_record(b"vb"));
        let pa: bool = kani::any();
        let pb: bool = kani::any();
        static CALLS: std::sync::atomic::AtomicUsize = std::sync::atomic::AtomicUsize::new(0);
        let res = store.remove_if(&mut move |k: &KeyType, _r: &Record| { CALLS.fetch_add(1, Ordering::SeqCst); if k[..] == b"a"[..] { pa } else { pb } });
        assert!(store.memory.guards.get() == 0);
        assert!(CALLS.load(Ordering::SeqCst) == if a_present { 2 } else { 1 });
        let n_sel = (if a_present && pa { 1 } else { 0 }) + (if pb { 1 } else { 0 });
        assert!(res.len() == n_sel);
        let mut i = 0;
        while i < res.len() { assert!(res[i].is_some()); i += 1; }
        assert!(store.memory.get(&ka).is_some() == (a_present && !pa));
        assert!(store.memory.get(&kb).is_some() == !pb);
    }

    // Guard discipline of remove_if on ONE concrete store content (two fixed records, predicate selecting both):
    // the stand-in asserts that no locking map call happens while an iteration guard is alive (C16).
    // BOUNDED: a single concrete execution - a stand-in for the symbolic harness above, which CBMC does not finish.
    #[kani::proof]
    #[kani::unwind(6)]
    fn store_remove_if_concrete() {
        let store = MemoryStore::new(Arc::new(FixedTimer(0)));
        store.memory.insert(Bytes::from_static(b"a"), Record::new(Bytes::from_static(b"va"), 1, 0, 0));
        store.memory.insert(Bytes::from_static(b"b"), Record::new(Bytes::from_static(b"vb"), 2, 0, 0));
        let res = store.remove_if(&mut |_k: &KeyType, _r: &Record| true);
        assert!(store.memory.guards.get() == 0);
        assert!(res.len() == 2);
        assert!(store.memory.len() == 0);
    }
}
