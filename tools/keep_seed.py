#!/usr/bin/env python3
"""keep_seed.py <seed-id> <property> <outdir> <confirm-log> -- <check output lines...>
Copies a confirmed seeded change into /verif/seeded/<seed-id>/ with meta.json."""
import sys, os, json, shutil, glob, re
sid, prop, out, clog = sys.argv[1:5]
rest = sys.argv[6:] if len(sys.argv) > 5 else []
d = os.path.join('/verif/seeded', sid)
os.makedirs(d, exist_ok=True)
shutil.copy(os.path.join(out, 'patch.diff'), os.path.join(d, 'patch.diff'))
for f in glob.glob(os.path.join(out, '*')):
    if f.endswith('.rs') or f.endswith('demo.diff') or f.endswith('notes.md'):
        shutil.copy(f, d)
conf = [l.strip() for l in open(clog) if l.startswith('RESULT %s ' % sid)]
notes = open(os.path.join(out, 'notes.md')).read() if os.path.exists(os.path.join(out, 'notes.md')) else ''
meta = {
    'seed': sid, 'breaks_property': prop,
    'source': 'independent sub-agent given only the property text and a scratch worktree of /repo',
    'needs_to_manifest': (re.search(r'(?is)(what.{0,40}(needed|takes|manifest).*?)(\n#|\n\n\n|\Z)', notes).group(1)[:1500] if re.search(r'(?is)what.{0,40}(needed|takes|manifest)', notes) else notes[:1500]),
    'confirmed': conf,
    'confirmed_how': 'tools/confirm_seed.sh in a fresh scratch worktree of /repo: git apply patch.diff; cargo test --workspace (existing suite); git apply demo.diff; cargo test --test <demo> with the patch (must fail) and with the patch reverted (must pass)',
    'checks_run': 'git -C /repo apply patch.diff; ./check <property>; git -C /repo checkout -- .',
    'check_results': rest,
}
json.dump(meta, open(os.path.join(d, 'meta.json'), 'w'), indent=1)
print('kept', d)
