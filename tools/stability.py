#!/usr/bin/env python3
"""stability.py [seeds...]  - runs every assembled unit under several Z3 random seeds and reports any function whose
verdict differs from seed to seed, and the functions closest to the resource limit.  Diagnostic for proof brittleness;
not part of any check."""
import sys, os, json
sys.path.insert(0, os.path.dirname(__file__))
import vf, assemble as asm
seeds = [int(x) for x in sys.argv[1:]] or [1, 2, 3, 4, 5]
for unit in ['codec_dec', 'codec_enc', 'server', 'conc']:
    out_rs, meta = asm.assemble(unit, vf.UNITS_OUT)
    base = None
    for sd in seeds:
        res = vf.run_verus(out_rs, seed=sd)
        cl = vf.classify(unit, meta, res)
        failed = sorted(set(f['ob'] for f in cl['failed']))
        und = cl['undecided']
        j = res['json'] or {}
        tv = j.get('verification-results', {})
        times = []
        try:
            for m in j['times-ms']['smt']['smt-run-module-times']:
                for f in m.get('function-breakdown', []):
                    times.append((f.get('rlimit', 0), f.get('time', 0), f['function']))
        except Exception as e:
            pass
        times.sort(reverse=True)
        print('%s seed=%d verified=%s errors=%s failed=%d undecided=%d wall=%.1f top=%s' % (unit, sd, tv.get('verified'), tv.get('errors'), len(failed), len(und), res['wall'],
              [(t[2].split('::')[-1], t[0], t[1]) for t in times[:3]]))
        if base is None: base = failed
        elif failed != base:
            print('  UNSTABLE: differs from first seed:', sorted(set(failed) ^ set(base)))
        for u in und[:3]: print('  undecided:', u[:200])
