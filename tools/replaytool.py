"""Replay files (DESIGN §7).  A replay file is JSON: property, obligation, verifier output and - when the
witness search found one - a concrete input that shows the failure on the real code in /repo."""
import os, sys, json, subprocess, time
ROOT = os.path.dirname(os.path.dirname(os.path.abspath(__file__)))
REPLAY_BIN = os.path.join(ROOT, 'build', 'replay-target', 'debug', 'replay')

def build_replay_bin():
    """(re)build the replay crate against /repo's current working tree"""
    env = dict(os.environ, CARGO_NET_OFFLINE='true', CARGO_TARGET_DIR=os.path.join(ROOT, 'build', 'replay-target'))
    lock = os.path.join(ROOT, 'replay', 'Cargo.lock')
    r = subprocess.run(['cargo', 'build', '--offline', '-q', '--bin', 'replay'], cwd=os.path.join(ROOT, 'replay'), env=env, capture_output=True, text=True)
    return r.returncode == 0, r.stderr[-2000:]

STEPS_BIN = os.path.join(ROOT, 'build', 'replay-target', 'debug', 'steps')
def build_steps_bin():
    """the step-level schedule driver implements the public Cache trait, so it is a separate binary: a change to
    that trait stops only this driver from building"""
    env = dict(os.environ, CARGO_NET_OFFLINE='true', CARGO_TARGET_DIR=os.path.join(ROOT, 'build', 'replay-target'))
    r = subprocess.run(['cargo', 'build', '--offline', '-q', '--bin', 'steps'], cwd=os.path.join(ROOT, 'replay'), env=env, capture_output=True, text=True)
    return r.returncode == 0, r.stderr[-2000:]

def run_session(lines, timeout=60):
    r = subprocess.run([REPLAY_BIN], input='\n'.join(lines) + '\n', capture_output=True, text=True, timeout=timeout)
    return [l for l in r.stdout.split('\n') if l and l != 'done']

def make_replay(pid, f, outdir):
    import witness
    name = '%s-%s.json' % (pid, f['full'].replace('/', '.').replace(':', '_'))
    path = os.path.join(outdir, name)
    doc = {'property': pid, 'obligation': f['full'], 'function': f.get('fn'), 'kind': f.get('kind'),
           'verifier_message': f.get('msg'), 'verifier_output': f.get('rendered'), 'witness': None,
           'created': time.strftime('%Y-%m-%dT%H:%M:%S')}
    found = False
    if f.get('witness'):
        doc['witness'] = f['witness']; found = True
    else:
        try:
            ok, err = build_replay_bin()
            if ok:
                w = witness.search(pid, f)
                if w:
                    doc['witness'] = w; found = True
            else:
                doc['witness_search_error'] = 'replay crate does not build against the current tree: ' + err[-500:]
        except Exception as e:
            doc['witness_search_error'] = repr(e)
    if not found:
        doc['note'] = 'no-failing-input-found: the verifier gives no counterexample for this obligation and the witness search over its boundary grid found none; the obligation above passed on the unchanged tree and fails now.'
    json.dump(doc, open(path, 'w'), indent=1)
    return path, found

def replay(path):
    import witness
    doc = json.load(open(path))
    print('property   :', doc['property'])
    print('obligation :', doc['obligation'])
    print('function   :', doc.get('function'))
    print('verifier   :', doc.get('verifier_message'))
    w = doc.get('witness')
    if not w:
        print('no concrete witness recorded (no-failing-input-found); verifier output follows')
        print(doc.get('verifier_output') or '')
        # re-run the check of the property and report whether the obligation still fails
        r = subprocess.run([sys.executable, os.path.join(ROOT, 'tools', 'vf.py'), doc['property']], capture_output=True, text=True)
        still = ('VIOLATION property=%s' % doc['property']) in r.stdout
        print('obligation still fails on the current tree:', still)
        return 1 if still else 0
    ok, err = build_steps_bin() if w.get('kind') in ('steps', 'steps-lin') else build_replay_bin()
    if not ok:
        print('replay crate does not build:', err); return 2
    res = witness.run_witness(w)
    print(json.dumps(res, indent=1))
    print('REPRODUCED' if res['violates'] else 'not reproduced on the current tree')
    return 1 if res['violates'] else 0
