#!/bin/bash
# usage: eval_keep.sh <seed-id> <property> <outdir> <confirm-log>   (seed must be confirmed in the log)
SID=$1; P=$2; OUT=$3; LOG=$4
grep -q "^RESULT $SID " $LOG || { echo "$SID not confirmed"; exit 3; }
mapfile -t LINES < <(tools/try_seed.sh $OUT/patch.diff $P 2>&1 | grep -E "VIOLATION|UNDECIDED|^C[0-9]+:" | cut -c1-300)
printf '%s\n' "${LINES[@]}"
python3 tools/keep_seed.py $SID $P $OUT $LOG -- "${LINES[@]}"
