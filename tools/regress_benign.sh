#!/bin/bash
# usage: tools/regress_benign.sh [ids...]   applies every kept behaviour-preserving refactoring (benign/<id>/patch.diff) in
# turn, runs ALL checks, reverts.  Required: no VIOLATION line, ever; UNDECIDED lines are listed (they are not alarms).
cd /verif
IDS=${@:-$(ls benign)}
ALL="C01 C02 C03 C04 C05 C06 C07 C08 C09 C10 C11 C12 C13 C15 C16 C18 C19"
for b in $IDS; do
  git -C /repo apply --check /verif/benign/$b/patch.diff 2>/dev/null || { echo "$b PATCH-DOES-NOT-APPLY"; continue; }
  git -C /repo apply /verif/benign/$b/patch.diff
  viol=""; und=""
  for p in $ALL; do
    out=$(./check $p 2>&1)
    echo "$out" | grep -q "^VIOLATION" && viol="$viol $p"
    echo "$out" | grep -q "^UNDECIDED" && und="$und $p"
  done
  git -C /repo checkout -- .
  echo "$b false-alarms:[${viol# }] undecided:[${und# }]"
done
for p in $ALL; do ./check $p >/dev/null 2>&1; done
git -C /repo status --short | head -3
