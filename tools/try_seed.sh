#!/bin/bash
# usage: tools/try_seed.sh <patch.diff> [props...]   applies the patch to /repo, runs the checks, reverts
P=$1; shift
cd /repo && git apply --check "$P" || { echo "patch does not apply"; exit 3; }
git apply "$P"
cd /verif
PROPS=${@:-C01 C02 C03 C04 C05 C06 C07 C08 C09 C10 C11 C12 C13 C15 C16 C18 C19}
for p in $PROPS; do ./check $p 2>&1 | grep -E "VIOLATION|UNDECIDED|^C[0-9]+:" | cut -c1-220; done
git -C /repo checkout -- .
# restore the evidence files from the unchanged tree
for p in $PROPS; do ./check $p >/dev/null 2>&1; done
git -C /repo status --short | head -3
