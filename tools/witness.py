"""Witness search (DESIGN §7): illustrates a failure the verifier has already established by running
candidate inputs from the obligation's boundary grid through the real code (replay crate) and
evaluating a run-time twin of the property's top-level statement.  It never decides anything."""
import re, struct, json
import replaytool

def hdr(op, key=0, extras=0, body=0, opaque=0, cas=0, magic=0x80, dt=0):
    return struct.pack('>BBHBBHIIQ', magic, op, key, extras, dt, 0, body, opaque, cas)

GENERATORS = []
def generator(pattern):
    def deco(fn):
        GENERATORS.append((re.compile(pattern), fn)); return fn
    return deco

def search(pid, f):
    tried = set()
    for (pat, fn) in GENERATORS:
        if pat.search(pid + ':' + f['full']):
            tried.add(fn.__name__)
            w = fn(pid, f)
            if w: return w
    # last resort: the generic twins of the property family (a failing obligation with no generator of its own)
    if pid in ('C01', 'C02', 'C05', 'C06', 'C07', 'C08', 'C11', 'C12', 'C13', 'C19', 'C15'):
        for (name, fn) in (('gen_refmodel', gen_refmodel), ('gen_refmodel_policy', gen_refmodel_policy)):
            if name not in tried:
                w = fn(pid, f)
                if w: return w
    if pid in ('C05', 'C08'):
        w = gen_sock_timed(pid, f)
        if w: return w
    if pid in ('C19',):
        w = gen_sock(pid, f)
        if w: return w
    if pid in ('C09', 'C10', 'C12', 'C13', 'C18'):
        for (name, fn) in (('gen_framing', gen_framing), ('gen_sock', gen_sock)) + ((('gen_sock_faults', gen_sock_faults),) if pid in ('C12', 'C18', 'C09') else ()):
            if name not in tried:
                w = fn(pid, f)
                if w: return w
    return None

def run_witness(w):
    kind = w['kind']
    if kind == 'segmentation':
        a = replaytool.run_session(w['prelude'] + ['feed ' + c for c in w['chunks_a']])
        b = replaytool.run_session(w['prelude'] + ['feed ' + c for c in w['chunks_b']])
        strip = lambda ev: ['err' if e.startswith('err') else e for e in ev if not e.startswith('more ') and e != 'ignored-after-close']
        return {'run_a': a, 'run_b': b, 'violates': strip(a) != strip(b), 'required': 'same requests and responses for both segmentations'}
    if kind == 'session':
        ev = replaytool.run_session(w['lines'])
        bad = False
        why = []
        for chk in w['expect']:
            t = chk['type']
            if t == 'event_equals':
                got = ev[chk['index']] if chk['index'] < len(ev) else None
                if got != chk['value']: bad = True; why.append('event %d is %r, required %r' % (chk['index'], got, chk['value']))
            elif t == 'event_prefix':
                got = ev[chk['index']] if chk['index'] < len(ev) else ''
                if not (got or '').startswith(chk['value']): bad = True; why.append('event %d is %r, required prefix %r' % (chk['index'], got, chk['value']))
            elif t == 'no_event_prefix':
                if any(e.startswith(chk['value']) for e in ev): bad = True; why.append('event with prefix %r present' % chk['value'])
            elif t == 'statuses':
                rs = [e for e in ev if e.startswith('resp ') or e == 'silent' or e.startswith('panic') or e.startswith('err')]
                got = [resp_status(e) if e.startswith('resp ') else e for e in rs]
                if got != chk['value']: bad = True; why.append('response statuses %r, required %r' % (got, chk['value']))
            elif t == 'lens':
                got = [int(e.split()[1]) for e in ev if e.startswith('len ')]
                if got != chk['value']: bad = True; why.append('store sizes %r, required %r' % (got[:12], chk['value'][:12]))
            elif t == 'count_prefix':
                n = len([e for e in ev if e.startswith(chk['value'])])
                if n != chk['count']: bad = True; why.append('%d events with prefix %r, required %d' % (n, chk['value'], chk['count']))
        return {'events': ev, 'violates': bad, 'why': why, 'required': w.get('required')}
    if kind == 'hang':
        import subprocess
        try:
            r = subprocess.run([replaytool.REPLAY_BIN], input='\n'.join(w['lines']) + '\n', capture_output=True, text=True, timeout=10)
            return {'violates': False, 'finished': True, 'required': w.get('required')}
        except subprocess.TimeoutExpired as e:
            out = (e.stdout.decode() if isinstance(e.stdout, bytes) else (e.stdout or ''))
            try:   # timing guard: the session has to hang a second time, with a longer watchdog
                subprocess.run([replaytool.REPLAY_BIN], input='\n'.join(w['lines']) + '\n', capture_output=True, text=True, timeout=30)
                return {'violates': False, 'finished': True, 'note': 'first run exceeded the 10 s watchdog, second run finished', 'required': w.get('required')}
            except subprocess.TimeoutExpired:
                pass
            return {'violates': True, 'finished': False, 'output_before_hang': [l for l in out.split('\n') if l][-4:], 'required': w.get('required')}
    if kind == 'clock':
        import subprocess
        r = subprocess.run([replaytool.REPLAY_BIN, 'clock', str(w['ticks'])], capture_output=True, text=True, timeout=120)
        out = r.stdout.strip()
        return {'violates': not out.startswith('ok '), 'output': out, 'required': w.get('required')}
    if kind == 'history':
        import refmodel
        r = refmodel.run_history(_dec(w['ops']), tuple(w.get('config', ())))
        return {'violates': r is not None, 'mismatch': r, 'required': w.get('required')}
    if kind == 'conc':
        import subprocess
        r = subprocess.run([replaytool.REPLAY_BIN, 'conc'], input='\n'.join(w['lines']) + '\n', capture_output=True, text=True, timeout=120)
        out = [l for l in r.stdout.split('\n') if l]
        bad = any(l.strip() == 'linearizable false' for l in out) or any('BLOCKED' in l for l in out)
        if bad:   # timing guard: only a schedule that fails twice counts
            r = subprocess.run([replaytool.REPLAY_BIN, 'conc'], input='\n'.join(w['lines']) + '\n', capture_output=True, text=True, timeout=120)
            out2 = [l for l in r.stdout.split('\n') if l]
            bad = any(l.strip() == 'linearizable false' for l in out2) or any('BLOCKED' in l for l in out2)
        return {'output': out, 'violates': bad, 'required': w.get('required', 'the concurrent outcome equals one of the two sequential orders (the real code is its own oracle)')}
    if kind == 'steps-lin':
        import re
        out = _steps(w['lines'])
        d = {l.split(' ', 1)[0]: l.split(' ', 1)[1] for l in out if ' ' in l}
        m = re.match(r't1=(\S*) t2=(\S*) final=(\S*)', d.get('concurrent', ''))
        good = bool(m) and 'seq12' in d and ([m.group(1), m.group(2), m.group(3)] == d['seq12'].split(',') or [m.group(2), m.group(1), m.group(3)] == d['seq21'].split(','))
        if w.get('uncond'):
            vals = [x for x in d.get('cas-issued', '').split(',') if x]
            if len(set(vals)) != len(vals) or '0' in vals: good = False
        return {'output': out, 'violates': not good, 'required': w.get('required')}
    if kind == 'steps':
        out = _steps(w['lines'])
        bad = 'completes true' not in out
        if bad:   # timing guard: only a scenario that fails twice counts
            out2 = _steps(w['lines'])
            bad = 'completes true' not in out2
        return {'output': out, 'violates': bad, 'required': w.get('required')}
    if kind == 'sock-eof':
        def still_open():
            got, eof = _sock(w['lines'])
            return not eof
        bad = still_open() and still_open()
        return {'violates': bad, 'required': w.get('required')}
    if kind == 'sock-last':
        def answered():
            import subprocess
            r = subprocess.run([replaytool.REPLAY_BIN, 'sock'], input='\n'.join(w['lines']) + '\n', capture_output=True, text=True, timeout=60)
            recvs = [l[5:] for l in r.stdout.split('\n') if l.startswith('recv ')]
            return bool(recvs) and recvs[-1] == w['expect_last_recv']
        bad = not answered() and not answered()
        return {'violates': bad, 'required': w.get('required')}
    if kind == 'recorded-session':
        ev = replaytool.run_session([l for l in (w.get('lines') or [])])
        return {'events': ev[-12:], 'violates': None, 'note': 'recorded session of a reference-model mismatch: re-run `python3 tools/refmodel.py` for the verdict; the events above are what the real code answers now', 'required': w.get('required')}
    if kind in ('sock-stream', 'sock-surplus'):
        w2 = gen_sock_correlation('C11', {'full': 'replay'})
        return {'violates': w2 is not None and w2.get('kind') == kind, 'why': (w2 or {}).get('what'), 'required': w.get('required')}
    if kind == 'sock-correlation':
        def problem():
            got, eof = _sock(w['lines'])
            frs, err = _frames_of(bytes.fromhex(got))
            if err: return err, got
            reqs = [struct.unpack('>BBHBBHIIQ', bytes.fromhex(x)[:24]) for x in w['sent']]
            k = 0
            for fr in frs:
                if fr['magic'] != 0x81: return 'response with magic 0x%02x' % fr['magic'], got
                if fr['klen'] + fr['elen'] > fr['blen']: return 'key + extras > body', got
                while k < len(reqs) and not (reqs[k][1] == fr['op'] and reqs[k][7] == fr['opaque']): k += 1
                if k == len(reqs): return 'response (opcode 0x%02x, opaque 0x%08x) answers no request sent on this connection' % (fr['op'], fr['opaque']), got
                k += 1
            return None, got
        why, got = problem()
        if why: why, got = problem()
        return {'output': ['recv ' + got], 'violates': bool(why), 'why': why, 'required': w.get('required')}
    if kind == 'sock':
        got, eof = _sock_stable(w['lines'], w['expect_recv'])
        bad = got != w['expect_recv']
        return {'output': ['recv ' + got] + (['eof'] if eof else []), 'violates': bad, 'required': 'bytes received == ' + w['expect_recv']}
    raise ValueError('unknown witness kind ' + kind)

# ------------------------------------------------------------------------------------------------
# C09 / decoder: every opcode x extras x key x body around key+extras, followed by a noop; compare
# one-shot delivery with delivery split after the first frame's announced end and byte-at-a-time.
@generator(r'codec_dec/(parse_|decode)')
def gen_framing(pid, f):
    noop = hdr(0x0a, opaque=0x11223344)
    for op in list(range(0, 0x25)):
        for extras in (0, 4, 8, 20):
            for key in (0, 1, 3):
                for extra_body in (0, 1, 9):
                    body = key + extras + extra_body
                    frame = hdr(op, key=key, extras=extras, body=body) + bytes((i * 7 + 1) % 256 for i in range(body))
                    stream = frame + noop
                    w = {'kind': 'segmentation', 'prelude': ['limit 1048576'],
                         'chunks_a': [stream.hex()], 'chunks_b': [frame.hex(), noop.hex()],
                         'what': 'opcode 0x%02x key_length=%d extras_length=%d body_length=%d followed by a noop: delivered in one read vs. split at the announced frame end' % (op, key, extras, body)}
                    r = run_witness(w)
                    if r['violates']:
                        w['observed'] = r
                        return w
                    # exactness: after the first frame the noop must be answered (or the connection closed)
                    ev = [e for e in r['run_a'] if not e.startswith('more ')]
                    closed = any(e.startswith('err') or e == 'closed' for e in ev)
                    noop_answered = any(e.startswith('resp 810a') and e.endswith('112233440000000000000000') for e in ev)
                    if not closed and not noop_answered:
                        return {'kind': 'session', 'lines': ['limit 1048576', 'feed ' + stream.hex()],
                                'expect': [{'type': 'count_prefix', 'value': 'resp 810a', 'count': 1}],
                                'required': 'the frame is taken from exactly 24+body_length bytes, so the following noop is answered (or the connection is closed)',
                                'what': w['what'], 'observed': r['run_a']}
    return None

# ------------------------------------------------------------------------------------------------
# helpers to build request frames
def f_set(key, val, flags=0, exp=0, cas=0, op=1, opaque=0):
    return hdr(op, key=len(key), extras=8, body=8 + len(key) + len(val), cas=cas, opaque=opaque) + struct.pack('>II', flags, exp) + key + val
def f_key(op, key, cas=0, opaque=0):
    return hdr(op, key=len(key), body=len(key), cas=cas, opaque=opaque) + key
def f_flush(delay=None, op=8):
    return hdr(op) if delay is None else hdr(op, extras=4, body=4) + struct.pack('>I', delay)
def f_delta(op, key, delta, initial=0, exp=0, cas=0, opaque=0):
    return hdr(op, key=len(key), extras=20, body=20 + len(key), cas=cas, opaque=opaque) + struct.pack('>QQI', delta, initial, exp) + key
def f_app(op, key, val, cas=0):
    return hdr(op, key=len(key), body=len(key) + len(val), cas=cas) + key + val

def resp_status(ev):
    """status of the i-th response event (hex string after 'resp ')"""
    b = bytes.fromhex(ev.split()[1])
    return struct.unpack('>H', b[6:8])[0]
def resp_cas(ev):
    b = bytes.fromhex(ev.split()[1]); return struct.unpack('>Q', b[16:24])[0]

def _responses(lines):
    ev = replaytool.run_session(lines)
    return [e for e in ev if e.startswith('resp ') or e == 'silent' or e.startswith('panic') or e.startswith('err')], ev

# C02/C08 delete rule (kani/store_delete and everything above it): absent -> 1, cas 0 / matching -> 0 and gone,
# stale -> 2 and still there
@generator(r'(kani/store_delete|memc\.delete|handler\.delete|policy\.delete\.post_delete)')
def gen_delete(pid, f):
    cases = []
    for absent_cas in (0, 5, 2**64 - 1):
        cases.append((['feed ' + f_key(4, b'k', cas=absent_cas).hex()], [1], 'delete of an absent key with cas=%d must answer not found (0x0001)' % absent_cas))
    cases.append((['feed ' + f_set(b'k', b'v').hex(), 'feed ' + f_key(4, b'k', cas=77).hex(), 'feed ' + f_key(0, b'k').hex()], [0, 2, 0], 'delete with a stale CAS answers key exists (0x0002) and leaves the item'))
    cases.append((['feed ' + f_set(b'k', b'v').hex(), 'feed ' + f_key(4, b'k', cas=1).hex(), 'feed ' + f_key(0, b'k').hex()], [0, 0, 1], 'delete with the matching CAS removes the item'))
    cases.append((['feed ' + f_set(b'k', b'v').hex(), 'feed ' + f_set(b'j', b'w').hex(), 'feed ' + f_key(4, b'k').hex(), 'feed ' + f_key(0, b'j').hex(), 'feed ' + f_key(0, b'k').hex()], [0, 0, 0, 0, 1], 'delete removes exactly the addressed key'))
    for lines, want, what in cases:
        rs, ev = _responses(lines)
        got = [resp_status(e) if e.startswith('resp ') else e for e in rs]
        if got != want:
            return {'kind': 'session', 'lines': lines, 'expect': [{'type': 'statuses', 'value': want}], 'required': what, 'what': what, 'observed': ev}
    return None

# ------------------------------------------------------------------------------------------------
# store / handler obligations: the reference model of the property statements (tools/refmodel.py) is run over its
# boundary catalogue and seeded random histories against the real request path; the first step where the real code
# disagrees with the statements is the witness.
def _enc(o):
    if isinstance(o, bytes): return {'__b': o.hex()}
    if isinstance(o, dict): return {k: _enc(v) for k, v in o.items()}
    if isinstance(o, list): return [_enc(x) for x in o]
    return o
def _dec(o):
    if isinstance(o, dict) and '__b' in o: return bytes.fromhex(o['__b'])
    if isinstance(o, dict): return {k: _dec(v) for k, v in o.items()}
    if isinstance(o, list): return [_dec(x) for x in o]
    return o

@generator(r'server/(store\.|memc\.|handler\.|handle_request|check_if_expired|get_by_key|cache\.get|set\.safety|add_delta|flush\.safety|into_|storage_error|meta\.|record\.)|codec_dec/parse_(set|get|delete|append|inc|flush|header_only|not_supported)|kani/store_delete')
def gen_refmodel(pid, f, config=()):
    import refmodel, os
    seed = int(os.environ.get('VERIF_SEED', '0') or 0)
    def wit(h, r):
        return {'kind': 'history', 'ops': _enc(h), 'config': list(config), 'what': r['why'], 'required': 'every step of the history agrees with the reference model of the property statements (tools/refmodel.py)',
                'first_mismatch_step': r['step'], 'session_lines': r['lines'], 'observed': r['observed']}
    for h in refmodel.boundary_histories():
        r = refmodel.run_history(h, config)
        if r: return wit(h, r)
    if not any(c.startswith('limit ') for c in config):
        cfg = tuple(config) + ('limit 1024',)
        for h in refmodel.limit_histories():
            r = refmodel.run_history(h, cfg)
            if r:
                w = wit(h, r); w['config'] = list(cfg); return w
    import random
    rng = random.Random(seed)
    for _ in range(150):
        h = refmodel.random_history(rng)
        r = refmodel.run_history(h, config)
        if r: return wit(h, r)
    return None

# the same histories with random eviction switched on and a memory limit that is never reached: nothing may change
NO_PRESSURE = ('policy random 1099511627776',)
@generator(r'server/policy\.')
def gen_refmodel_policy(pid, f):
    return gen_refmodel(pid, f, NO_PRESSURE)

# C16: a command that does not return.  The session is run under a watchdog; not finishing is the witness.
@generator(r'server/timer\.')
def gen_clock(pid, f):
    # BOUNDED: 2^23 ticks of the real SystemTimer (97 days of seconds)
    w = {'kind': 'clock', 'ticks': 1 << 23, 'required': 'after n calls of add_second the real SystemTimer reads n (n = 1 .. 2^23)',
         'what': 'the server clock does not count the seconds it was ticked (output: "bad <ticks> <timestamp read>")'}
    return w if run_witness(w)['violates'] else None

@generator(r'kani/store_remove_if|ownership\.|no_call_under_guard')
def gen_hang(pid, f):
    V = b'v' * 100
    scenarios = [
        ['policy random 300'] + ['feed ' + f_set(b'k%d' % i, V).hex() for i in range(6)],                       # stores that trigger the eviction sweep
        ['policy random 300', 'feed ' + f_set(b'big', b'v' * 1000).hex()] + ['feed ' + f_set(b'k%d' % i, V).hex() for i in range(3)],  # one item above the whole memory limit, then more stores (the sweep empties the store)
        ['policy random 300'] + ['feed ' + f_set(b'k%d' % i, b'v' * n).hex() for i, n in enumerate([10, 290, 10, 301, 1, 299, 300, 5])] + ['feed ' + f_key(0, b'k1').hex()],
        ['policy random 100'] + ['feed ' + f_set(b'same', b'v' * 50).hex()] * 5 + ['feed ' + f_key(0, b'same').hex()],   # the same key stored again and again (every store is accounted)
        ['feed ' + f_set(b'k', V).hex(), 'feed ' + f_set(b'k', V, cas=77).hex(), 'feed ' + f_set(b'k', V, cas=1).hex()],   # CAS mismatch / match on a present key
        ['feed ' + f_set(b'k', V, exp=1).hex(), 'tick 5', 'feed ' + f_key(0, b'k').hex(), 'feed ' + f_flush().hex(), 'feed ' + f_flush(5).hex()],
    ]
    for lines in scenarios:
        w = {'kind': 'hang', 'lines': lines, 'required': 'every command returns (watchdog: the whole session finishes within 10 s)', 'what': 'a command of this session does not return (deadlock or endless loop)'}
        if run_witness(w)['violates']:
            return w
    return None

# ------------------------------------------------------------------------------------------------
# Connection level (C09 at the socket, C12, C13, C18): the same pipelined stream is sent to the REAL server over TCP
# in one segment, request by request, and cut inside requests; the response bytes must be the same, and equal to what
# the socket-less request path (decode -> handler -> encode) produces for that stream.
def _sock(lines):
    import subprocess
    r = subprocess.run([replaytool.REPLAY_BIN, 'sock'], input='\n'.join(lines) + '\n', capture_output=True, text=True, timeout=60)
    out = [l for l in r.stdout.split('\n') if l]
    return ''.join(l[5:] for l in out if l.startswith('recv ')), any(l == 'eof' for l in out)

def _slow(lines, k):
    out = []
    for l in lines:
        w = l.split()
        if w and w[0] in ('sleep', 'recv'): out.append('%s %d' % (w[0], int(w[1]) * k))
        else: out.append(l)
    return out

def _sock_stable(lines, want, scales=(3, 6)):
    """timing guard: a delivery whose answer differs from `want` is repeated twice with 3x and 6x longer pauses; only an
    answer that differs every time is reported (returns the last answer)"""
    got, eof = _sock(lines)
    for k in scales:
        if got == want: break
        got, eof = _sock(_slow(lines, k))
    return got, eof

def _session_resp(frames, limit):
    ev = replaytool.run_session(['limit %d' % limit] + ['feed ' + f.hex() for f in frames])
    return ''.join(e[5:] for e in ev if e.startswith('resp '))

def sock_pipelines():
    noop = hdr(0x0a, opaque=0x0a0a0a0a)
    big = hdr(0x01, key=1, extras=8, body=3000) + b'\0' * 8 + b'k' + b'v' * 2991
    P = []
    P.append(('set get noop', 1048576, [f_set(b'a', b'1'), f_key(0, b'a'), noop]))
    P.append(('noop quit trailing', 1048576, [noop, hdr(0x07, opaque=7), noop]))
    P.append(('set get quitq trailing', 1048576, [f_set(b'a', b'1'), f_key(0, b'a'), hdr(0x17), f_key(0, b'a')]))
    P.append(('quiet gets then noop', 1048576, [f_set(b'a', b'1', op=0x11), f_key(0x09, b'a'), f_key(0x0d, b'zz'), f_key(0x0d, b'a'), noop]))
    P.append(('touch then noop', 1048576, [hdr(0x1c, key=1, extras=4, body=5) + b'\0\0\0\1k', noop]))
    P.append(('oversized then gets', 1024, [big, f_key(0, b'k'), noop]))
    P.append(('stored item, then an oversized store of the same key, then gets', 1024, [f_set(b'k', b'small'), big, f_key(0, b'k'), noop]))
    big2 = hdr(0x01, key=1, extras=8, body=9000) + b'\0' * 8 + b'k' + b'v' * 8991
    P.append(('oversized (larger than the 4 KiB read buffer) then gets', 1024, [big2, f_key(0, b'k'), noop]))
    P.append(('counters', 1048576, [f_delta(5, b'c', 1, 10, 0), f_delta(0x15, b'c', 5), f_delta(6, b'c', 100), f_key(0, b'c'), noop]))
    two_mib = b'w' * (2 << 20)
    P.append(('2 MiB item under a 4 MiB limit', 4 << 20, [f_set(b'L', two_mib), f_key(0x0c, b'L') , noop]))
    P.append(('600-byte item under a 512-byte limit', 512, [f_set(b's', b'x' * 600), f_key(0, b's'), noop]))
    bad = bytearray(f_set(b'z', b'9')); bad[0] = 0x55
    P.append(('answered requests, then a silent quiet one at the end', 1048576, [f_set(b'a', b'1'), noop, f_set(b'b', b'2', op=0x11)]))
    P.append(('answered requests, then the beginning of another frame', 1048576, [f_set(b'a', b'1'), noop, f_set(b'c', b'3')[:30]]))
    P.append(('answered requests, then a header with a corrupted magic byte', 1048576, [f_set(b'a', b'1'), noop, bytes(bad)]))
    P.append(('quiet get hit at the very end', 1048576, [f_set(b'a', b'1', op=0x11), f_key(0x09, b'a')]))
    P.append(('quiet get hit, then quitq', 1048576, [f_set(b'a', b'1', op=0x11), f_key(0x0d, b'a'), hdr(0x17)]))
    P.append(('append whose result comes close to the item limit', 1024, [f_set(b'k', b'a' * 995), f_app(0x0e, b'k', b'b' * 10), f_app(0x0f, b'k', b'c' * 10), f_key(0, b'k'), noop]))
    P.append(('near-limit store followed by twenty pipelined gets', 8192, [f_set(b'n', b'v' * 8100)] + [f_key(0, b'n')] * 20 + [noop]))
    P.append(('setq x3 then get', 1048576, [f_set(b'a', b'1', op=0x11), f_set(b'b', b'2', op=0x11), f_set(b'c', b'3', op=0x11), f_key(0, b'b')]))
    return P

@generator(r'server/(read_frame|skip_bytes|conn\.|client\.|handle\.safety|handle_frame|write|server_config\.|tcp_server\.)|codec_dec/(decode|parse_request|parse_header)')
def gen_sock(pid, f):
    for name, limit, frames in sock_pipelines():
        stream = b''.join(frames)
        want = _session_resp(frames, limit)
        deliveries = {'one segment': [stream], 'request by request': frames}
        cuts = []
        off = 0
        for fr in frames:
            for c in (1, 24, len(fr) - 1):
                if 0 < c < len(fr): cuts.append(off + c)
            off += len(fr)
        for c in (cuts if len(cuts) <= 9 else cuts[:6] + cuts[-3:]):   # the last frame's cuts matter: nothing follows them
            deliveries['cut at %d' % c] = [stream[:c], stream[c:]]
        if len(stream) > 3000:
            deliveries['cut inside the oversized body twice'] = [stream[:1024], stream[1024:2024], stream[2024:]]
            deliveries['cut header / half body'] = [stream[:24], stream[24:1524], stream[1524:]]
        for dn, chunks in deliveries.items():
            lines = ['limit %d' % limit]
            for ch in chunks:
                lines += ['send ' + ch.hex(), 'sleep 60']
            lines += ['recv 400']
            got, eof = _sock_stable(lines, want)
            if got != want:
                return {'kind': 'sock', 'lines': lines, 'expect_recv': want, 'what': 'pipeline "%s" delivered as "%s": the server answers %s..., the request path requires %s...' % (name, dn, got[:48], want[:48]),
                        'required': 'the response bytes do not depend on segmentation and equal those of decode -> handler -> encode'}
    return None

# ------------------------------------------------------------------------------------------------
# C18 over TCP: a connection is cut at an offset of its pipelined stream (or carries a corrupted header) and a second
# connection observes afterwards.  Required: the observer's responses are exactly those that the completed requests
# imply (computed by the socket-less request path on the completed prefix).  BOUNDED: the offsets and streams below.
def _observer_expect(prefix_frames, observer_frames, limit=1048576):
    ev = replaytool.run_session(['limit %d' % limit] + ['feed ' + f.hex() for f in prefix_frames] + ['conn'] + ['feed ' + f.hex() for f in observer_frames])
    k = max(i for i, e in enumerate(ev) if e == 'conn') if 'conn' in ev else -1
    return ''.join(e[5:] for e in ev[k + 1:] if e.startswith('resp '))

def gen_sock_faults(pid, f):
    noop = hdr(0x0a, opaque=0x0b0b0b0b)
    frames = [f_set(b'a', b'1'), f_set(b'b', b'22', op=0x11), f_delta(5, b'c', 1, 10, 0), f_set(b'd', b'4444')]
    observer = [f_key(0, b'a'), f_key(0, b'b'), f_key(0, b'c'), f_key(0, b'd'), noop]
    stream = b''.join(frames)
    bounds = [0]
    for fr in frames: bounds.append(bounds[-1] + len(fr))
    cuts = sorted(set([0, 1, 23, 24] + bounds + [b + 1 for b in bounds[:-1]] + [b + 24 for b in bounds[:-1]] + [b - 1 for b in bounds[1:]]))
    cuts = [c for c in cuts if 0 <= c <= len(stream)]
    gen_sock_faults.last_count = 0
    def completed(c): return [fr for i, fr in enumerate(frames) if bounds[i + 1] <= c]
    def check(lines, want, what, scales=(3, 6)):
        gen_sock_faults.last_count += 1
        got, eof = _sock_stable(lines, want, scales)
        if got != want:
            return {'kind': 'sock', 'lines': lines, 'expect_recv': want, 'what': what + ': the observing connection receives %s..., required %s...' % (got[:64], want[:64]),
                    'required': 'the observer sees exactly the store contents that the completely sent requests imply'}
        return None
    # (1) orderly close at every selected offset
    for c in cuts:
        lines = (['send ' + stream[:c].hex()] if c else []) + ['sleep 80', 'conn'] + ['send ' + b''.join(observer).hex(), 'recv 300']
        w = check(lines, _observer_expect(completed(c), observer), 'stream of %d requests cut at byte %d, connection closed' % (len(frames), c))
        if w: return w
    # (2) corrupted header byte after complete requests, delivered in ONE segment
    for n_ok in (1, 2, 3):
        bad = bytearray(frames[n_ok]); bad[0] = 0x55
        seg = b''.join(frames[:n_ok]) + bytes(bad)
        lines = ['send ' + seg.hex(), 'sleep 80', 'conn', 'send ' + b''.join(observer).hex(), 'recv 300']
        w = check(lines, _observer_expect(frames[:n_ok], observer), '%d complete requests followed by a header with a corrupted magic byte, in one segment' % n_ok)
        if w: return w
    # (1b) the sending side is closed IMMEDIATELY after complete requests were sent (FIN queued right behind the data).
    # The client half-closes and reads its responses to the end: closing a socket with unread responses would make the
    # kernel RESET the connection, and after a reset only a prefix has to be executed.
    for c in bounds[1:]:
        # on a FRESH connection, so that data and FIN are both queued before the server's task reads for the first time
        lines = ['conn', 'send ' + stream[:c].hex(), 'shutdown_wr', 'recv 300', 'conn', 'sleep 100', 'send ' + b''.join(observer).hex(), 'recv 300']
        def last_recv_ok(lines=lines, want=_observer_expect(completed(c), observer)):
            import subprocess
            r = subprocess.run([replaytool.REPLAY_BIN, 'sock'], input='\n'.join(lines) + '\n', capture_output=True, text=True, timeout=60)
            recvs = [l[5:] for l in r.stdout.split('\n') if l.startswith('recv ')]
            return (recvs[-1] if recvs else ''), want
        gen_sock_faults.last_count += 1
        got, want = last_recv_ok()
        for k in (3, 6):
            if got == want: break
            got, want = last_recv_ok(_slow(lines, k))
        if got != want:
            return {'kind': 'sock-last', 'lines': lines, 'expect_last_recv': want, 'what': 'stream cut at byte %d (a frame boundary), sending side closed immediately after the send, responses read to the end: the observing connection receives %s..., required %s...' % (c, got[:64], want[:64]),
                    'required': 'the observer sees exactly the store contents that the completely sent requests imply'}
    # (1c) abortive reset after complete requests had time to be executed
    for c in (bounds[2], bounds[-1]):
        lines = ['send ' + stream[:c].hex(), 'sleep 80', 'rst', 'sleep 80', 'send ' + b''.join(observer).hex(), 'recv 300']
        w = check(lines, _observer_expect(completed(c), observer), 'stream cut at byte %d, connection RESET 80 ms after the send' % c)
        if w: return w
    # (2b) nothing after quit / quitq is executed, even in the same segment
    for qop in (0x07, 0x17):
        seg = [f_set(b'a', b'1'), hdr(qop, opaque=9), f_set(b'a', b'2'), f_set(b'b', b'22')]
        lines = ['send ' + b''.join(seg).hex(), 'sleep 80', 'conn', 'send ' + b''.join(observer).hex(), 'recv 300']
        w = check(lines, _observer_expect(seg, observer), 'set, %s, two more sets in one segment' % ('quit' if qop == 7 else 'quitq'))
        if w: return w
    # (2c) connections reset before the server picked them up (no byte sent) do not stop the accept loop
    lines = ['rstconn 25', 'sleep 100', 'conn', 'send ' + b''.join(observer).hex(), 'recv 300']
    w = check(lines, _observer_expect([], observer), '25 connections reset right after connect, before anything was sent')
    if w: return w
    # (2d) an oversized body whose bytes look like requests, delivered with pauses around the receive timeout: whatever
    # the server does with the connection, the bytes of that body are never executed
    inner = f_set(b'pwn', b'1') * 40
    bigb = hdr(0x01, key=1, extras=8, body=9 + len(inner), opaque=0x0e0e0e0e) + b'\0' * 8 + b'k' + inner
    for pause in (700, 1500):
        c1, c2 = 33 + 36 * 8, 33 + 36 * 24      # cuts on boundaries of the frames inside the body
        lines = ['limit 1024', 'timeout 1', 'send ' + bigb[:c1].hex(), 'sleep %d' % pause, 'send ' + bigb[c1:c2].hex(), 'sleep %d' % pause, 'send ' + bigb[c2:].hex(), 'sleep 200', 'conn',
                 'send ' + (f_key(0, b'pwn') + noop).hex(), 'recv 300']
        want = _observer_expect([], [f_key(0, b'pwn'), noop], limit=1024)
        # the pauses ARE the scenario (they straddle the receive timeout): a disagreement is re-run with the same timing
        w = check(lines, want, 'an oversized body that consists of SET frames, sent in three pieces %d ms apart (receive timeout 1 s)' % pause, scales=(1, 1))
        if w: return w
    # (3) many faulted connections in a row (more than the connection limit of the driver, 8), then the observer
    part = stream[:bounds[1] + 30]
    lines = []
    for _ in range(10):
        lines += ['send ' + part.hex(), 'sleep 30', 'conn']
    lines += ['send ' + b''.join(observer).hex(), 'recv 600']
    w = check(lines, _observer_expect([frames[0]] * 10, observer), 'ten connections in a row cut inside their second request')
    if w: return w
    return None
gen_sock_faults.last_count = 0

# ------------------------------------------------------------------------------------------------
# C11 over TCP, with an oracle that does not depend on the code under test: whatever the server writes on a
# connection must be a sequence of whole, well-formed response frames, each correlated (opcode and opaque) with a
# request sent on that connection, in request order.  The streams end in requests that are malformed at the header
# or body level (key too long, extras too long, key announced but missing, unknown data type, bad magic).
def _frames_of(b):
    out = []
    i = 0
    while i + 24 <= len(b):
        magic, op, klen, elen, dt, status, blen, opaque, cas = struct.unpack('>BBHBBHIIQ', b[i:i + 24])
        if i + 24 + blen > len(b): return out, 'truncated frame at byte %d (announces %d body bytes, %d present)' % (i, blen, len(b) - i - 24)
        out.append({'magic': magic, 'op': op, 'klen': klen, 'elen': elen, 'status': status, 'blen': blen, 'opaque': opaque})
        i += 24 + blen
    if i != len(b): return out, '%d trailing bytes that are not a frame' % (len(b) - i)
    return out, None

def gen_sock_correlation(pid, f):
    good = [f_set(b'a', b'1', opaque=0x01010101), f_key(0x0c, b'a', opaque=0x02020202), hdr(0x0a, opaque=0x03030303)]
    bads = {
        'key of 300 bytes': hdr(0x01, key=300, extras=8, body=8 + 300 + 1, opaque=0x0badbad1) + b'\0' * 8 + b'k' * 300 + b'v',
        'extras of 40 bytes': hdr(0x01, key=1, extras=40, body=42, opaque=0x0badbad2) + b'\0' * 40 + b'kv',
        'get without its key': hdr(0x00, key=0, extras=0, body=0, opaque=0x0badbad3),
        'set whose body is shorter than key + extras': hdr(0x01, key=4, extras=8, body=6, opaque=0x0badbad4) + b'\0' * 6,
        'unknown data type': hdr(0x01, key=1, extras=8, body=10, opaque=0x0badbad5, dt=7) + b'\0' * 8 + b'kv',
        'request magic 0x81': hdr(0x0a, opaque=0x0badbad6, magic=0x81),
    }
    # every opcode that addresses a key, announcing key length 0
    for op in (0x00, 0x01, 0x02, 0x03, 0x04, 0x05, 0x06, 0x09, 0x0c, 0x0d, 0x0e, 0x0f, 0x11, 0x12, 0x13, 0x14, 0x15, 0x16, 0x19, 0x1a):
        ex = 8 if op in (1, 2, 3, 0x11, 0x12, 0x13) else (20 if op in (5, 6, 0x15, 0x16) else 0)
        val = b'v' if op in (1, 2, 3, 0x0e, 0x0f, 0x11, 0x12, 0x13, 0x19, 0x1a) else b''
        bads['opcode 0x%02x with key length 0' % op] = hdr(op, key=0, extras=ex, body=ex + len(val), opaque=0x0bad0000 + op) + b'\0' * ex + val
    gen_sock_correlation.last_count = 0
    for name, bad in bads.items():
        for deliver in ('one segment', 'malformed request in its own segment'):
            sent = good + [bad]
            lines = ['send ' + b''.join(sent).hex()] if deliver == 'one segment' else ['send ' + b''.join(good).hex(), 'sleep 60', 'send ' + bad.hex()]
            lines += ['recv 300']
            gen_sock_correlation.last_count += 1
            def problem():
                got, eof = _sock(lines)
                frs, err = _frames_of(bytes.fromhex(got))
                if err: return err
                reqs = [struct.unpack('>BBHBBHIIQ', x[:24]) for x in sent]
                k = 0
                for fr in frs:
                    if fr['magic'] != 0x81: return 'response with magic 0x%02x' % fr['magic']
                    if fr['klen'] + fr['elen'] > fr['blen']: return 'response announces key %d + extras %d > body %d' % (fr['klen'], fr['elen'], fr['blen'])
                    while k < len(reqs) and not (reqs[k][1] == fr['op'] and reqs[k][7] == fr['opaque']): k += 1
                    if k == len(reqs): return 'response (opcode 0x%02x, opaque 0x%08x) answers no request sent on this connection (in order)' % (fr['op'], fr['opaque'])
                    if k == len(reqs) - 1 and fr['status'] in (0, 1, 2, 6): return 'the malformed request (opaque 0x%08x) was executed: it is answered with status 0x%04x, which only the store produces' % (fr['opaque'], fr['status'])
                    k += 1
                return None
            why = problem()
            if why and problem():      # timing guard: has to show twice
                return {'kind': 'sock-correlation', 'lines': lines, 'sent': [x.hex() for x in sent], 'what': 'three valid requests followed by a request with %s (%s): %s' % (name, deliver, why),
                        'required': 'everything written is a sequence of whole response frames (magic 0x81, key + extras <= body), each carrying the opcode and opaque of a request sent on this connection, in request order'}
    # a client that does not read for longer than the server's timeouts, then reads everything: the stream it gets must
    # still be whole frames (a write that gave up mid-frame must not be followed by further frames)
    bigv = b'q' * 1000000
    lines = ['timeout 1', 'send ' + f_set(b'big', bigv, opaque=0x01010101).hex(), 'recv 300', 'sendn 48 ' + f_key(0, b'big', opaque=0x02020202).hex(), 'sleep 2600', 'send ' + hdr(0x0a, opaque=0x03030303).hex(), 'recv 1500']
    gen_sock_correlation.last_count += 1
    def stream_problem():
        import subprocess
        r = subprocess.run([replaytool.REPLAY_BIN, 'sock'], input='\n'.join(lines) + '\n', capture_output=True, text=True, timeout=120)
        outl = [l for l in r.stdout.split('\n') if l]
        recvs = [l[5:] for l in outl if l.startswith('recv ')]
        eof = outl and outl[-1] == 'eof'
        if len(recvs) < 2: return None
        b = bytes.fromhex(recvs[1])
        i = 0
        while i + 24 <= len(b):
            magic, op, klen, elen, dt, status, blen, opaque, cas = struct.unpack('>BBHBBHIIQ', b[i:i + 24])
            # every header in the stream has to be one of the two responses that were asked for
            if magic != 0x81 or (opaque, blen) not in ((0x02020202, 1000004), (0x03030303, 0)):
                return 'at byte %d of the response stream there is no response header (magic 0x%02x, opaque 0x%08x, body length %d): a write that gave up mid-frame was followed by further frames' % (i, magic, opaque, blen)
            if i + 24 + blen > len(b):
                return None if eof else 'the last frame is incomplete and the connection is still open'
            i += 24 + blen
        return None
    why = stream_problem()
    if why and stream_problem():
        return {'kind': 'sock-stream', 'lines': lines, 'what': 'a client requests a 1 MB item 48 times, does not read for 2.6 s (receive/write timeout 1 s), then reads: %s' % why,
                'required': 'whatever a connection receives is a sequence of whole response frames, possibly cut off by the end of the connection'}
    # more connections than the connection limit (8 in the driver): the surplus one gets nothing it did not ask for
    lines = []
    for _ in range(8): lines += ['send ' + hdr(0x0a, opaque=0x05050505).hex(), 'conn_keep']
    lines += ['send ' + hdr(0x0a, opaque=0x06060606).hex(), 'recv 500']
    gen_sock_correlation.last_count += 1
    def surplus_problem():
        got, eof = _sock(lines)
        frs, err = _frames_of(bytes.fromhex(got))
        if err: return err
        for fr in frs:
            if fr['magic'] != 0x81 or fr['opaque'] != 0x06060606 or fr['op'] != 0x0a: return 'the ninth connection receives a frame (opcode 0x%02x, opaque 0x%08x, status 0x%04x) that answers none of its requests' % (fr['op'], fr['opaque'], fr['status'])
        return None
    why = surplus_problem()
    if why and surplus_problem():
        return {'kind': 'sock-surplus', 'lines': lines, 'what': 'nine connections under a connection limit of eight: %s' % why,
                'required': 'every frame a connection receives answers a request it sent'}
    return None
gen_sock_correlation.last_count = 0

# ------------------------------------------------------------------------------------------------
# C05 / C08 over TCP with the server clock under control (`tick`): phases of pipelined requests, each sent in ONE
# segment, separated by clock advances.  Expectation = the socket-less request path fed the same phases and ticks.
def sock_timed_pipelines():
    noop = hdr(0x0a, opaque=0x0c0c0c0c)
    P = []
    P.append(('store, delayed flush and a later store in one segment; reads after the deadline',
              [[f_set(b'a', b'1'), f_flush(5), f_set(b'b', b'2')], 10, [f_key(0, b'a'), f_key(0, b'b'), noop]]))
    P.append(('quiet variant of the same', [[f_set(b'a', b'1', op=0x11), f_flush(5, op=0x18), f_set(b'b', b'2', op=0x11)], 10, [f_key(0, b'a'), f_key(0, b'b'), noop]]))
    P.append(('identical re-store restarts the ttl', [[f_set(b'a', b'1', exp=5)], 4, [f_set(b'a', b'1', exp=5)], 3, [f_key(0, b'a'), noop], 2, [f_key(0, b'a'), noop]]))
    P.append(('immediate flush, then stores', [[f_set(b'a', b'1'), f_flush(), f_set(b'b', b'2'), f_key(0, b'a'), f_key(0, b'b')], 100, [f_key(0, b'b'), noop]]))
    return P

def gen_sock_timed(pid, f):
    gen_sock_timed.last_count = 0
    for name, phases in sock_timed_pipelines():
        sess = ['limit 1048576']; lines = ['limit 1048576']
        for ph in phases:
            if isinstance(ph, int):
                sess.append('tick %d' % ph); lines += ['sleep 60', 'tick %d' % ph]
            else:
                sess += ['feed ' + x.hex() for x in ph]; lines += ['send ' + b''.join(ph).hex()]
        lines += ['recv 400']
        ev = replaytool.run_session(sess)
        want = ''.join(e[5:] for e in ev if e.startswith('resp '))
        gen_sock_timed.last_count += 1
        got, eof = _sock_stable(lines, want)
        if got != want:
            return {'kind': 'sock', 'lines': lines, 'expect_recv': want, 'what': 'timed pipeline "%s": the server answers %s..., the request path requires %s...' % (name, got[-96:], want[-96:]),
                    'required': 'the responses equal those of decode -> handler -> encode fed the same requests and clock advances'}
    return None
gen_sock_timed.last_count = 0

# ------------------------------------------------------------------------------------------------
# C18 / C16 over TCP: a client that goes silent inside a request is disconnected by the idle timeout (so its slot is
# returned), whatever kind of request it was inside of; and a client that sends requests and never reads its
# responses does not keep another connection from being served.  BOUNDED: the scenarios below.
def gen_sock_timeouts(pid, f):
    big = hdr(0x01, key=1, extras=8, body=5000) + b'\0' * 8 + b'k' + b'v' * 2000      # 2015 of the 5000 announced body bytes
    cases = {'inside a header': hdr(0x0a)[:10], 'inside the body of a set': f_set(b'a', b'v' * 100)[:60],
             'inside an oversized body (limit 1024)': big, 'after complete requests, nothing pending': f_set(b'a', b'1')}
    gen_sock_timeouts.last_count = 0
    for name, part in cases.items():
        lines = ['limit 1024', 'timeout 1', 'send ' + part.hex(), 'sleep 2600', 'recv 300']
        gen_sock_timeouts.last_count += 1
        def silent_conn_open():
            got, eof = _sock(lines)
            return not eof
        if silent_conn_open() and silent_conn_open():
            return {'kind': 'sock-eof', 'lines': lines, 'what': 'receive timeout 1 s; the client goes silent %s: the server has not closed the connection 2.6 s later' % name,
                    'required': 'a connection that stays silent for longer than the receive timeout is closed (its slot is returned), wherever in a request the client stopped'}
    return None
gen_sock_timeouts.last_count = 0

def gen_sock_slow_reader(pid, f):
    noop = hdr(0x0a, opaque=0x0d0d0d0d)
    bigv = b'z' * 1000000
    lines = ['send ' + f_set(b'big', bigv).hex(), 'recv 300', 'sendn 64 ' + f_key(0, b'big').hex(), 'sleep 200', 'conn_keep', 'send ' + noop.hex(), 'recv 2500']
    want = (hdr(0x0a, opaque=0x0d0d0d0d, magic=0x81)).hex()
    def answered():
        import subprocess
        r = subprocess.run([replaytool.REPLAY_BIN, 'sock'], input='\n'.join(lines) + '\n', capture_output=True, text=True, timeout=60)
        recvs = [l[5:] for l in r.stdout.split('\n') if l.startswith('recv ')]
        return bool(recvs) and recvs[-1] == want
    if not answered() and not answered():
        return {'kind': 'sock-last', 'lines': lines, 'expect_last_recv': want, 'what': 'one client requests a 1 MB item 64 times and never reads; a second connection sends noop and is not answered within 2.5 s',
                'required': 'a client that does not read its responses blocks only itself'}
    return None

# ------------------------------------------------------------------------------------------------
# C15 (and C01 with "random eviction, limit not reached"): a workload that only stores NEW keys, deletes (cas 0,
# matching, stale), and reads - the operations whose accounting memc-rs gets right - under a limit far above the live
# set must never lose a live key.  (Overwrites, rejected stores, flushes and expiries are the open known findings.)
@generator(r'server/policy\.')
def gen_policy(pid, f):
    import random, os
    rng = random.Random(int(os.environ.get('VERIF_SEED', '0') or 0))
    V = b'v' * 100
    for variant in ('cas0', 'matching', 'stale', 'mixed', 'cas0+add', 'mixed+add'):
        use_add = variant.endswith('+add'); variant = variant.split('+')[0]
        lines = ['policy random 8192']
        live = {}
        serial = 0
        checks = []
        for step in range(900):
            if len(live) < 8:
                k = b'k%d' % serial; serial += 1
                lines.append('feed ' + f_set(k, V, op=(0x12 if (use_add and serial % 2 == 0) else 0x11)).hex()); live[k] = serial  # CAS of a fresh store == counter value (new keys also through addq)
            else:
                k = rng.choice(sorted(live))
                mode = variant if variant != 'mixed' else rng.choice(['cas0', 'matching', 'stale'])
                if mode == 'cas0': lines.append('feed ' + f_key(0x14, k).hex()); del live[k]
                elif mode == 'matching': lines.append('feed ' + f_key(0x14, k, cas=live[k]).hex()); del live[k]
                else: lines.append('feed ' + f_key(0x14, k, cas=0xdeadbeef).hex())
                if mode == 'stale':
                    # make room so the workload keeps moving
                    k2 = rng.choice(sorted(live)); lines.append('feed ' + f_key(0x14, k2).hex()); del live[k2]
            if step % 50 == 49:
                lines.append('len'); checks.append(len(live))
        ev = replaytool.run_session(lines)
        lens = [int(e.split()[1]) for e in ev if e.startswith('len ')]
        if lens != checks:
            idx = next((i for i, (a, b) in enumerate(zip(lens, checks)) if a != b), 0)
            return {'kind': 'session', 'lines': lines, 'expect': [{'type': 'lens', 'value': checks}],
                    'required': 'no live key is ever evicted: the stored data (about 1 KB) is far below the 8 KB limit',
                    'what': 'random eviction, workload of new-key stores and %s deletes: after %d steps the store holds %d keys, %d are live' % (variant, (idx + 1) * 50, lens[idx] if idx < len(lens) else -1, checks[idx])}
    return None

# ------------------------------------------------------------------------------------------------
# C03: two-thread schedules on the real store (thread 1 parked at its n-th Timer::timestamp() call while thread 2 runs
# to completion), compared with both sequential orders.  The grid leaves out the schedules of the open known findings
# (CAS store on an ABSENT key; the read-modify-write commands of C04), so what it finds is new.
@generator(r'conc/conc\.(set|cache_get|check_if_expired|get_by_key|remove)|kani/store_delete')
def gen_conc_store(pid, f):
    inits = {'present': ['init set k v0 0 0'], 'present-expired': ['init set k v0 0 5', 'tick 10'], 'absent': []}
    t1s = ['get k', 'set k one 0 0', 'set k one 1 0', 'delete k 0', 'delete k 1']
    t2s = ['get k', 'set k two 0 0', 'set k v0 0 0', 'set k two 1 0', 'delete k 0', 'delete k 1']   # `set k v0`: a refresh with the same payload
    for iname, init in inits.items():
        for a in t1s:
            for b in t2s:
                for park in (1, 2):
                    if iname == 'absent' and (' 1 0' in a and a.startswith('set')):
                        continue   # known finding: CAS store on an absent key
                    lines = init + ['t1 ' + a, 'park %d' % park, 't2 ' + b, 'final get k']
                    w = {'kind': 'conc', 'lines': lines, 'what': 'initial state %s; thread 1 `%s` parked at its timestamp() call #%d while thread 2 runs `%s`' % (iname, a, park, b)}
                    if run_witness(w)['violates']:
                        return w
    return None


# ------------------------------------------------------------------------------------------------
# C16 at the granularity of the store's internal steps: thread 1 is parked before each call it makes through a
# pass-through Cache layer (above the policy, between the policy and the memory store) or to the clock, while
# thread 2 runs whole commands; every command must return.  BOUNDED: the grid below.
def _steps(lines):
    import subprocess
    try:
        r = subprocess.run([replaytool.STEPS_BIN], input='\n'.join(lines) + '\n', capture_output=True, text=True, timeout=60)
        return [l for l in r.stdout.split('\n') if l]
    except subprocess.TimeoutExpired:
        return ['driver timed out']

def steps_grid():
    big = 'v' * 400
    G = []
    for pol in (None, 300):
        inits = {'absent': [], 'present': ['init set k 5 0 0'], 'present-expired': ['init set k 5 0 5', 'tick 10']}
        if pol:
            inits['over-limit'] = ['init set big %s 0 0' % big, 'init set k 5 0 0']
            inits['same-key-stored-repeatedly'] = ['init set k %s 0 0' % ('v' * 120)] * 3
        t1s = ['get k', 'set k one 0 0', 'set k one 1 0', 'set k %s 0 0' % ('w' * 200), 'delete k 0', 'delete k 1', 'add k 7', 'replace k 7', 'append k 7', 'prepend k 7',
               'incr k 1', 'decr k 1', 'incr other 1', 'flush 0', 'flush 5']
        t2s = ['set k two 0 0', 'set j %s 0 0' % ('u' * 250), 'delete k 0', 'flush 0', 'incr k 1', 'get k']
        for iname, init in inits.items():
            for a in t1s:
                G.append((pol, iname, init, a, t2s))
    return G

def gen_steps(pid, f, quick=True):
    ok, err = replaytool.build_steps_bin()
    if not ok:
        return None
    from concurrent.futures import ThreadPoolExecutor
    jobs = []
    def prelude(pol, init): return (['policy random %d' % pol] if pol else ['policy none']) + init
    def dry(job):
        pol, iname, init, a, t2s = job
        lines = prelude(pol, init) + ['t1 ' + a, 'park 0']
        return job, lines, _steps(lines)
    with ThreadPoolExecutor(8) as ex:
        dries = list(ex.map(dry, steps_grid()))
    runs = []
    for (job, lines, out) in dries:
        pol, iname, init, a, t2s = job
        if 'completes true' not in out:
            w = {'kind': 'steps', 'lines': lines, 'required': 'the command returns', 'what': 'policy %s, initial state %s: `%s` run on its own does not return' % (pol, iname, a)}
            if run_witness(w)['violates']: return w
            continue
        n = 0
        for l in out:
            if l.startswith('steps '): n = int(l.split()[1])
        for park in range(1, n + 1):
            for b in t2s:
                runs.append((pol, iname, a, park, b, prelude(pol, init) + ['t1 ' + a, 'park %d' % park, 't2 ' + b, 'final get k']))
    # three clients: thread 1 parked inside a store that has to evict, two more stores that have to evict run concurrently
    for (job, lines, out) in dries:
        pol, iname, init, a, t2s = job
        if pol and iname in ('over-limit', 'same-key-stored-repeatedly') and a.startswith('set k') and 'completes true' in out:
            n = ([int(l.split()[1]) for l in out if l.startswith('steps ')] or [0])[0]
            for park in range(1, n + 1):
                runs.append((pol, iname, a, park, 'set j .. || set m ..', prelude(pol, init) + ['t1 ' + a, 'park %d' % park, 't2par set j %s 0 0' % ('u' * 250), 't2par set m %s 0 0' % ('y' * 250), 'final get k']))
    def conc(r):
        return r, _steps(r[5])
    with ThreadPoolExecutor(8) as ex:
        for (r, out) in ex.map(conc, runs):
            if 'completes true' not in out:
                pol, iname, a, park, b, lines = r
                w = {'kind': 'steps', 'lines': lines, 'required': 'every command returns (thread 2 while thread 1 is parked or after its release; thread 1 after its release)',
                     'what': 'policy %s, initial state %s: thread 1 `%s` parked before its step #%d while thread 2 runs `%s`: a command does not return' % (pol, iname, a, park, b)}
                if run_witness(w)['violates']: return w
    gen_steps.last_count = len(dries) + len(runs)
    return None
gen_steps.last_count = 0

# C03 at step granularity (thorough tier / fallback): the concurrent outcome (results of both threads and the final
# content) must equal one of the two sequential orders, for get / set / delete / flush on one key.  BOUNDED: the grid.
# The known finding (CAS store on an ABSENT key racing another store) is left out, as in gen_conc_store.
def gen_steps_lin(pid, f):
    import re
    ok, err = replaytool.build_steps_bin()
    if not ok:
        return None
    from concurrent.futures import ThreadPoolExecutor
    inits = {'absent': [], 'present': ['init set k 5 0 0'], 'present-expired': ['init set k 5 0 5', 'tick 10'], 'present-with-ttl': ['init set k 5 0 50', 'tick 10']}
    t1s = ['get k', 'set k 1 0 0', 'set k 1 1 0', 'set k 1 0 7', 'delete k 0', 'delete k 1', 'flush 0', 'flush 5']
    t2s = ['get k', 'set k 2 0 0', 'set k 2 1 0', 'set k 5 0 0', 'delete k 0', 'delete k 1', 'flush 0', 'flush 3']
    jobs = []
    for pol in (None, 100000):
        for iname, init in inits.items():
            for a in t1s:
                if iname == 'absent' and a == 'set k 1 1 0': continue
                pre = (['policy random %d' % pol] if pol else ['policy none']) + init
                out = _steps(pre + ['t1 ' + a, 'park 0'])
                n = ([int(l.split()[1]) for l in out if l.startswith('steps ')] or [0])[0]
                for park in range(1, n + 1):
                    for b in t2s:
                        jobs.append((pol, iname, a, park, b, pre + ['t1 ' + a, 'park %d' % park, 't2 ' + b, 'final get k']))
    def uncond(op):   # the CAS of an acknowledged mutation comes from the store's counter unless the request carried one for an absent key
        w = op.split()
        return not (w[0] == 'set' and len(w) > 3 and w[3] != '0') and not (w[0] == 'delete' and len(w) > 2 and w[2] != '0')
    def lin(out, j=None):
        for l in out:
            if l.startswith('cas-issued') and j is not None and uncond(j[2]) and uncond(j[4]):
                vals = [x for x in l.split(' ', 1)[1].split(',') if x] if ' ' in l else []
                if len(set(vals)) != len(vals) or '0' in vals: return False     # two acknowledged mutations carry the same CAS
        d = {l.split(' ', 1)[0]: l.split(' ', 1)[1] for l in out if ' ' in l}
        m = re.match(r't1=(\S*) t2=(\S*) final=(\S*)', d.get('concurrent', ''))
        if not m or 'seq12' not in d: return False
        r1, r2, fin = m.groups()
        return [r1, r2, fin] == d['seq12'].split(',') or [r2, r1, fin] == d['seq21'].split(',')
    def run(j): return j, _steps(j[5])
    gen_steps_lin.last_count = len(jobs)
    with ThreadPoolExecutor(8) as ex:
        for j, out in ex.map(run, jobs):
            if not lin(out, j) and not lin(_steps(j[5]), j):
                return {'kind': 'steps-lin', 'lines': j[5], 'required': 'the concurrent outcome equals one of the two sequential orders (the real code is its own oracle) and no two acknowledged mutations carry the same CAS', 'uncond': uncond(j[2]) and uncond(j[4]),
                        'what': 'policy %s, initial state %s: thread 1 `%s` parked before its step #%d while thread 2 runs `%s`: outcome matches neither sequential order (or two acknowledged mutations carry the same CAS)' % (j[0], j[1], j[2], j[3], j[4])}
    return None
gen_steps_lin.last_count = 0

# Bounded stand-ins registered per property in specs/properties.json (`bounded_twins`): for functions that no contract
# within reach covers.  Labelled bounded in the evidence; never counted as proved.
BOUNDED_TWINS = {
    'correlation': {'gen': gen_sock_correlation, 'fn': 'the accept loop and the write path of the server (memc_tcp.rs::run and what it spawns are outside any contract)',
                    'bound': 'three valid requests followed by one of 26 malformed requests, in one segment / in its own segment; a reader that pauses beyond the timeouts; nine connections under a limit of eight (oracle independent of the code)',
                    'what': 'everything a connection receives is a sequence of whole response frames, each correlated (opcode, opaque) with a request it sent, in order; a malformed request is never answered with success'},
    'slow_reader': {'gen': gen_sock_slow_reader, 'fn': 'the write path across connections (no contract relates two connections)',
                    'bound': 'one scenario over TCP: a client requests a 1 MB item 64 times without reading; a second connection must get its noop answered within 2.5 s',
                    'what': 'a client that does not read its responses blocks only itself'},
    'steps_lin': {'gen': gen_steps_lin, 'fn': 'RandomPolicy and MemcStore under interference (the interference contracts of unit conc cover MemoryStore only)',
                  'bound': 'two threads, get/set/delete/flush on one key, 4 initial states x 2 policies, thread 1 parked before each of its Cache-layer / clock calls (about 1000 schedules)',
                  'what': 'the concurrent outcome equals one of the two sequential orders and no two acknowledged mutations carry the same CAS'},
    'steps': {'gen': gen_steps, 'fn': 'interleavings of MemcStore / RandomPolicy / MemoryStore calls (no contract expresses lock order across threads)',
              'bound': 'two threads; thread 1 parked before each of its calls through the Cache trait layers or to the clock; 15 commands x 3-5 initial states x 2 policies for thread 1, 6 commands for thread 2 (tools/witness.py:steps_grid)',
              'what': 'every command returns under every step-level two-thread schedule of the grid'},
    'hang': {'gen': gen_hang, 'fn': 'memcache::random_policy::RandomPolicy::incr_mem_usage',
             'bound': '6 sessions (stores under a 300-byte memory limit with values below, at and above the limit; CAS stores; expiry + flush), watchdog 10 s each',
             'what': 'every command of the scenario sessions returns (the eviction loop of incr_mem_usage terminates)'},
}
