"""Witness search (DESIGN §7): illustrates a failure the verifier has already established by running
candidate inputs from the obligation's boundary grid through the real code (replay crate) and
evaluating a run-time twin of the property's top-level statement.  It never decides anything."""
import re, struct, json
import replaytool

def hdr(op, key=0, extras=0, body=0, opaque=0, cas=0, magic=0x80, dt=0):
    return struct.pack('>BBHBBHIIQ', magic, op, key, extras, dt, 0, body, opaque, cas)

GENERATORS = []
def generator(pattern):
    def deco(fn):
        GENERATORS.append((re.compile(pattern), fn)); return fn
    return deco

def search(pid, f):
    for (pat, fn) in GENERATORS:
        if pat.search(pid + ':' + f['full']):
            w = fn(pid, f)
            if w: return w
    return None

def run_witness(w):
    kind = w['kind']
    if kind == 'segmentation':
        a = replaytool.run_session(w['prelude'] + ['feed ' + c for c in w['chunks_a']])
        b = replaytool.run_session(w['prelude'] + ['feed ' + c for c in w['chunks_b']])
        strip = lambda ev: ['err' if e.startswith('err') else e for e in ev if not e.startswith('more ') and e != 'ignored-after-close']
        return {'run_a': a, 'run_b': b, 'violates': strip(a) != strip(b), 'required': 'same requests and responses for both segmentations'}
    if kind == 'session':
        ev = replaytool.run_session(w['lines'])
        bad = False
        why = []
        for chk in w['expect']:
            t = chk['type']
            if t == 'event_equals':
                got = ev[chk['index']] if chk['index'] < len(ev) else None
                if got != chk['value']: bad = True; why.append('event %d is %r, required %r' % (chk['index'], got, chk['value']))
            elif t == 'event_prefix':
                got = ev[chk['index']] if chk['index'] < len(ev) else ''
                if not (got or '').startswith(chk['value']): bad = True; why.append('event %d is %r, required prefix %r' % (chk['index'], got, chk['value']))
            elif t == 'no_event_prefix':
                if any(e.startswith(chk['value']) for e in ev): bad = True; why.append('event with prefix %r present' % chk['value'])
            elif t == 'count_prefix':
                n = len([e for e in ev if e.startswith(chk['value'])])
                if n != chk['count']: bad = True; why.append('%d events with prefix %r, required %d' % (n, chk['value'], chk['count']))
        return {'events': ev, 'violates': bad, 'why': why, 'required': w.get('required')}
    if kind == 'conc':
        import subprocess
        r = subprocess.run([replaytool.REPLAY_BIN, 'conc'], input='\n'.join(w['lines']) + '\n', capture_output=True, text=True, timeout=120)
        out = [l for l in r.stdout.split('\n') if l]
        bad = any(l.strip() == 'linearizable false' for l in out) or any('BLOCKED' in l for l in out)
        return {'output': out, 'violates': bad, 'required': w.get('required', 'the concurrent outcome equals one of the two sequential orders (the real code is its own oracle)')}
    if kind == 'sock':
        import subprocess
        r = subprocess.run([replaytool.REPLAY_BIN, 'sock'], input='\n'.join(w['lines']) + '\n', capture_output=True, text=True, timeout=120)
        out = [l for l in r.stdout.split('\n') if l]
        got = ''.join(l[5:] for l in out if l.startswith('recv '))
        bad = got != w['expect_recv']
        return {'output': out, 'violates': bad, 'required': 'bytes received == ' + w['expect_recv']}
    raise ValueError('unknown witness kind ' + kind)

# ------------------------------------------------------------------------------------------------
# C09 / decoder: every opcode x extras x key x body around key+extras, followed by a noop; compare
# one-shot delivery with delivery split after the first frame's announced end and byte-at-a-time.
@generator(r'codec_dec/(parse_|decode)')
def gen_framing(pid, f):
    noop = hdr(0x0a, opaque=0x11223344)
    for op in list(range(0, 0x25)):
        for extras in (0, 4, 8, 20):
            for key in (0, 1, 3):
                for extra_body in (0, 1, 9):
                    body = key + extras + extra_body
                    frame = hdr(op, key=key, extras=extras, body=body) + bytes((i * 7 + 1) % 256 for i in range(body))
                    stream = frame + noop
                    w = {'kind': 'segmentation', 'prelude': ['limit 1048576'],
                         'chunks_a': [stream.hex()], 'chunks_b': [frame.hex(), noop.hex()],
                         'what': 'opcode 0x%02x key_length=%d extras_length=%d body_length=%d followed by a noop: delivered in one read vs. split at the announced frame end' % (op, key, extras, body)}
                    r = run_witness(w)
                    if r['violates']:
                        w['observed'] = r
                        return w
                    # exactness: after the first frame the noop must be answered (or the connection closed)
                    ev = [e for e in r['run_a'] if not e.startswith('more ')]
                    closed = any(e.startswith('err') or e == 'closed' for e in ev)
                    noop_answered = any(e.startswith('resp 810a') and e.endswith('112233440000000000000000') for e in ev)
                    if not closed and not noop_answered:
                        return {'kind': 'session', 'lines': ['limit 1048576', 'feed ' + stream.hex()],
                                'expect': [{'type': 'count_prefix', 'value': 'resp 810a', 'count': 1}],
                                'required': 'the frame is taken from exactly 24+body_length bytes, so the following noop is answered (or the connection is closed)',
                                'what': w['what'], 'observed': r['run_a']}
    return None
