#!/usr/bin/env python3
"""Seeded-fault self-test (DESIGN §7): apply small property-breaking edits to a scratch copy of /repo's
sources (outside /repo and /verif, deleted afterwards), re-assemble and re-verify the units, and report
which obligations fail.  It can only lower confidence in the evidence; it never raises an alarm."""
import sys, os, json, shutil, subprocess, tempfile
ROOT = os.path.dirname(os.path.dirname(os.path.abspath(__file__)))
CAT = json.load(open(os.path.join(ROOT, 'specs', 'selftest_catalogue.json')))

_base = {}
def base_failed(units):
    """obligations that fail on the UNCHANGED tree (open known findings): they do not count as catching anything"""
    out = set()
    for u in units:
        if u not in _base:
            code = ("import sys,json; sys.path.insert(0,%r); import vf\n"
                    "r=vf.verify_unit(%r,'quick'); print('@@'+json.dumps([f['ob'] for f in r['classified']['failed']]))\n") % (os.path.join(ROOT, 'tools'), u)
            r = subprocess.run([sys.executable, '-c', code], capture_output=True, text=True)
            line = [l for l in r.stdout.split('\n') if l.startswith('@@')]
            _base[u] = set(json.loads(line[0][2:])) if line else set()
        out |= _base[u]
    return out

def run(only=None):
    res = []
    for m in CAT:
        if only and m['name'] not in only: continue
        tmp = tempfile.mkdtemp(prefix='vf-selftest-')
        try:
            shutil.copytree('/repo/memcrs/src', os.path.join(tmp, 'memcrs', 'src'))
            p = os.path.join(tmp, 'memcrs', 'src', m['file'])
            s = open(p).read()
            if m['old'] not in s:
                res.append({'name': m['name'], 'status': 'anchor-lost'}); continue
            open(p, 'w').write(s.replace(m['old'], m['new'], 1))
            env = dict(os.environ, VERIF_REPO=tmp, VERIF_NO_CACHE='1')
            code = ("import sys,json; sys.path.insert(0,%r); import vf, assemble as asm\n"
                    "out=[]\n"
                    "for u in %r:\n"
                    "    try:\n"
                    "        r=vf.verify_unit(u,'quick'); cl=r['classified']\n"
                    "        out.append({'unit':u,'failed':[f['ob'] for f in cl['failed']],'undecided':cl['undecided']})\n"
                    "    except asm.AnchorError as e:\n"
                    "        out.append({'unit':u,'failed':[],'undecided':['anchor: '+str(e)]})\n"
                    "print('@@'+json.dumps(out))\n") % (os.path.join(ROOT, 'tools'), m['units'])
            # separate build dir so the real build output is not disturbed
            r = subprocess.run([sys.executable, '-c', code], env=dict(env, VERIF_BUILD=os.path.join(tmp, 'build')), capture_output=True, text=True)
            line = [l for l in r.stdout.split('\n') if l.startswith('@@')]
            if not line:
                res.append({'name': m['name'], 'status': 'tool-error', 'detail': r.stderr[-500:]}); continue
            out = json.loads(line[0][2:])
            failed = sorted(set(f for u in out for f in u['failed']) - base_failed(m['units']))
            und = [x for u in out for x in u['undecided']]
            caught = any(e in failed for e in m['expect']) if m.get('expect') else bool(failed)
            res.append({'name': m['name'], 'property': m['property'], 'status': 'caught' if caught else ('undecided' if und and not failed else 'MISSED'),
                        'failed': failed, 'undecided': und[:2], 'expected': m.get('expect')})
        finally:
            shutil.rmtree(tmp, ignore_errors=True)
    return res

if __name__ == '__main__':
    only = sys.argv[1:] or None
    res = run(only)
    for r in res:
        print('%-8s %-40s %s %s' % (r['status'], r['name'], r.get('failed', ''), r.get('undecided') or ''))
    c = len([r for r in res if r['status'] == 'caught'])
    print('caught %d/%d' % (c, len(res)))
