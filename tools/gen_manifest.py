#!/usr/bin/env python3
import json, os
ROOT = os.path.dirname(os.path.dirname(os.path.abspath(__file__)))
conf = json.load(open(os.path.join(ROOT, 'specs', 'properties.json')))
props = [json.loads(l) for l in open(os.path.join(ROOT, 'properties.jsonl'))]
na = conf.get('not_applicable', {})
checks = []
for p in props:
    pid = p['id']
    if pid not in conf['properties']: continue
    pc = conf['properties'][pid]
    checks.append({
        'property_id': pid,
        'quick_cmd': './check %s --tier quick' % pid,
        'thorough_cmd': './check %s --tier thorough' % pid,
        'evidence_file': '/verif/evidence/%s.json' % pid,
        'replay_cmd_template': './check %s --replay {path}' % pid,
        'engine': 'verus-extract' + ('+kani' if pc.get('kani') else ''),
        'level_claimed': {'category': pc.get('level', 'proof'), 'text': pc.get('explanation', ''), 'design_ref': 'DESIGN.md section 6, ' + pid},
        'level_note': '; '.join(pc.get('assumptions', []) + ['stand-in contracts for bytes/dashmap/atomics/clock/tokio/std text-number functions are assumed; extraction rules R1-R14 (DESIGN 3, 12.2, 12.7)', 'when the verifier cannot decide (lost anchor, construct outside the subset) the run-time twins of the property statement are run on the real code and a concrete failing input is reported as a VIOLATION; otherwise the result stays UNDECIDED (exit 2)']),
        'technique': pc.get('technique', 'contract-based deductive verification: Verus (Z3) on function bodies extracted from /repo each run, contracts spliced as annotations'),
    })
m = {
    'version': 1,
    'setup_cmd': './setup.sh',
    'hooks': {'guard': 'none', 'enable': 'no hooks: function bodies are extracted from /repo on every run; Kani harnesses are injected into scratch copies', 'baseline_off_cmd': 'cd /repo && cargo test --workspace --no-fail-fast --offline', 'source_commits': [], 'add_only': True},
    'engines': [
        {'name': 'verus-extract', 'path': 'tools/vf.py', 'serves_properties': [c['property_id'] for c in checks], 'kind_free_text': 'extract (tools/assemble.py) -> splice contracts (specs/units/*.rs) -> verus single-file -> classify'},
        {'name': 'kani', 'path': 'tools/kanitool.py', 'serves_properties': sorted(k for k, v in conf['properties'].items() if v.get('kani')), 'kind_free_text': 'function contract of MemoryStore::delete (complete, loop-free, full u64 domain) and a bounded remove_if harness, on a scratch copy of /repo with an array-backed dashmap stand-in'},
        {'name': 'run-time twins', 'path': 'tools/witness.py', 'serves_properties': [c['property_id'] for c in checks], 'kind_free_text': 'NOT part of the proofs: witness search for failed obligations, fallback after an UNDECIDED verifier result, bounded stand-ins (labelled bounded) and the thorough tier exploration; drivers in replay/ run the real crate'},
    ],
    'checks': checks,
    'notes': 'See DESIGN.md (section 12 is the as-built record: 12.4 results per property, 12.5 the eleven fix: commits, 12.7 eight rounds of seeded changes, 12.10 the whole-connection theorem, 12.11 harmless refactorings and the false alarms they exposed, 12.12 what decides what). fix: commits in /repo are listed in known_findings.json (fixed entries suppress nothing). Exit codes: 0 held, 1 VIOLATION, 2 UNDECIDED (never an alarm). tools/regress_seeds.sh and tools/regress_benign.sh replay the kept seeded changes and refactorings.',
    'not_applicable': [{'property_id': p['id'], 'reason': na.get(p['id'], 'check not built yet (work in progress; DESIGN.md section 6)')} for p in props if p['id'] not in conf['properties']],
}
json.dump(m, open(os.path.join(ROOT, 'MANIFEST.json'), 'w'), indent=1)
print('checks:', len(checks), 'not_applicable:', len(m['not_applicable']))
