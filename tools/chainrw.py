"""R12: mechanical desugaring of `Result` adapter chains with closure arguments into `match` expressions.

    RECV.map(|P| E)       ->  (match RECV { Ok(P) => Ok(E), Err(__e) => Err(__e) })
    RECV.map_err(|P| E)   ->  (match RECV { Ok(__v) => Ok(__v), Err(P) => Err(E) })
    RECV.and_then(|P| E)  ->  (match RECV { Ok(P) => E, Err(__e) => Err(__e) })

These are the definitions of Result::map / map_err / and_then in core; closure parameter type annotations are
dropped (patterns keep `mut`).  A closure whose body contains `return` or `?` is refused (they would change
meaning when inlined).  Anything the rewriter does not recognise raises ValueError (=> undecided)."""
import re
import rsparse

ADAPT = ('map_err', 'and_then', 'map')
_PAT = re.compile(r'\.\s*(map_err|and_then|map)\s*\(\s*(move\s+)?\|')

def _find_adapters(m):
    return [mm for mm in _PAT.finditer(m)]

def _closure_parts(text, m, open_paren):
    """text[open_paren] == '(' of the adapter call; returns (param_pattern, body_text, close_paren_index)"""
    close = rsparse.match_close(m, open_paren)
    inner_a = open_paren + 1
    # closure head |...|
    bar1 = m.index('|', inner_a)
    bar2 = m.index('|', bar1 + 1)
    params = text[bar1 + 1:bar2].strip()
    # drop type annotation: split at first ':' at depth 0
    pm = rsparse.mask(params)
    depth = 0; cut = None
    for i, c in enumerate(pm):
        if c in '(<[': depth += 1
        elif c in ')>]': depth -= 1
        elif c == ':' and depth == 0 and pm[i:i+2] != '::' and (i == 0 or pm[i-1] != ':'):
            cut = i; break
    pat = params[:cut].strip() if cut is not None else params
    # a second parameter would show as a top-level comma (commas inside <...> of a type are at depth > 0)
    depth = 0
    for c in pm:
        if c in '(<[': depth += 1
        elif c in ')>]': depth -= 1
        elif c == ',' and depth == 0:
            raise ValueError('multi-parameter closure in adapter: ' + params)
    body = text[bar2 + 1:close].strip()
    # optional `-> T` before a block body is not used in this code base
    if body.startswith('->'):
        raise ValueError('closure with return type in adapter')
    bm = rsparse.mask(body)
    if re.search(r'\breturn\b', bm):
        body = eliminate_guard_returns(body)
        bm = rsparse.mask(body)
    if re.search(r'\breturn\b', bm) or '?' in bm:
        raise ValueError('closure body with return/? cannot be inlined')
    return pat, body, close

def eliminate_guard_returns(body):
    """`{ if C { A; return E; } REST }`  ->  `{ if C { A; E } else { REST } }`   (guard-style early returns at the
    start of a closure block; applied repeatedly).  Inside a closure `return E` yields E as the closure's value, so
    the two forms are equivalent.  Anything else is left alone (and then refused by the caller)."""
    b = body.strip()
    if not (b.startswith('{') and b.endswith('}')):
        return body
    inner = b[1:-1]
    m = rsparse.mask(inner)
    mm = re.match(r'\s*if\b', m)
    if not mm:
        return body
    # find the '{' opening the if-block (first '{' at depth 0 after the condition)
    k = mm.end(); n = len(m)
    while k < n:
        if m[k] in '([':
            k = rsparse.match_close(m, k) + 1; continue
        if m[k] == '{': break
        k += 1
    if k >= n: return body
    close = rsparse.match_close(m, k)
    after = m[close + 1:]
    if re.match(r'\s*else\b', after):
        return body
    blk = inner[k + 1:close]
    bm = rsparse.mask(blk)
    r = None
    for r in re.finditer(r'\breturn\b', bm): pass
    if r is None: return body
    # the return must be the last statement of the block: `return EXPR;` followed only by whitespace
    tail = bm[r.end():]
    semi = None; depth = 0
    for i, ch in enumerate(tail):
        if ch in '([{': depth += 1
        elif ch in ')]}': depth -= 1
        elif ch == ';' and depth == 0: semi = i; break
    if semi is None or tail[semi + 1:].strip() != '' or len(re.findall(r'\breturn\b', bm)) != 1:
        return body
    expr = blk[r.end():r.end() + semi].strip()
    new_blk = blk[:r.start()] + expr + '\n'
    rest = inner[close + 1:]
    rest_block = '{' + rest + '}'
    if re.search(r'\breturn\b', rsparse.mask(rest)):
        rest_block = eliminate_guard_returns(rest_block)
    return '{' + inner[:k + 1] + new_blk + '} else ' + rest_block + '}'

def _receiver_start(text, m, dot):
    """index where the postfix expression ending just before text[dot]=='.' starts"""
    def skip_ws_left(i):
        while i > 0 and m[i-1].isspace(): i -= 1
        return i
    i = skip_ws_left(dot)
    while i > 0:
        c = m[i-1]
        if c in ')]':
            depth = 0; j = i - 1
            while j >= 0:
                if m[j] in ')]}': depth += 1
                elif m[j] in '([{':
                    depth -= 1
                    if depth == 0: break
                j -= 1
            if j < 0: raise ValueError('unbalanced receiver')
            i = j
        elif c == '>':
            depth = 0; j = i - 1
            while j >= 0:
                if m[j] == '>': depth += 1
                elif m[j] == '<':
                    depth -= 1
                    if depth == 0: break
                j -= 1
            if j < 2 or m[j-2:j] != '::': raise ValueError('unexpected > in receiver')
            i = j - 2
        elif c.isalnum() or c == '_':
            j = i
            while j > 0 and (m[j-1].isalnum() or m[j-1] == '_'): j -= 1
            if m[j:i] in ('match', 'return', 'if', 'else', 'let', 'in', 'mut'):
                return skip_ws_right(m, i)
            i = j
        elif c == '?':
            i -= 1
        elif c == '.':
            i = skip_ws_left(i - 1)
        elif c == ':' and i > 1 and m[i-2] == ':':
            i -= 2
        elif c == '&':
            return i - 1
        else:
            return skip_ws_right(m, i)
    return 0

def skip_ws_right(m, i):
    while i < len(m) and m[i].isspace(): i += 1
    return i

def rewrite(text):
    """rewrite all adapter-with-closure calls in `text`; returns (new_text, count)"""
    n = 0
    guard = 0
    while True:
        guard += 1
        if guard > 50: raise ValueError('rewriter does not terminate')
        m = rsparse.mask(text)
        ads = _find_adapters(m)
        if not ads: break
        # choose the textually last adapter whose closure body contains no further adapter-with-closure
        chosen = None
        for mm in reversed(ads):
            open_paren = m.index('(', mm.start())
            pat, body, close = _closure_parts(text, m, open_paren)
            if not _PAT.search(rsparse.mask(body)):
                chosen = (mm, pat, body, close); break
        if chosen is None: raise ValueError('no innermost adapter found')
        mm, pat, body, close = chosen
        dot = mm.start()
        rs = _receiver_start(text, m, dot)
        recv = text[rs:dot].strip()
        kind = mm.group(1)
        if kind == 'map':
            new = '(match %s { Ok(%s) => Ok(%s), Err(__e) => Err(__e) })' % (recv, pat, body)
        elif kind == 'map_err':
            new = '(match %s { Ok(__v) => Ok(__v), Err(%s) => Err(%s) })' % (recv, pat, body)
        else:
            new = '(match %s { Ok(%s) => %s, Err(__e) => Err(__e) })' % (recv, pat, body)
        text = text[:rs] + new + text[close + 1:]
        n += 1
    return text, n

if __name__ == '__main__':
    import sys
    src = open(sys.argv[1]).read()
    out, n = rewrite(src)
    print(out); print('// rewrites:', n)
