#!/usr/bin/env python3
"""Assemble a Verus unit from a template (specs/units/<unit>.rs) and /repo's working tree.

Template directives (each on its own line, starting at column 0 after optional spaces):

  //@include <path relative to specs/>          raw include of a hand-written spec/prelude file
  //@items <repo file> | <selector>[, <selector>...]
        copies whole items (struct/enum/type/const/fn/impl) verbatim (rules R1,R2,R5,R6,R9 apply).
        selector = "<kind> <name>" e.g. "struct RequestHeader", "enum Command", "type *", "impl ResponseHeader"
  //@fn <repo file> | <container> | <fn name> [| key=value ...]
        container = "-" (free fn) or e.g. "impl MemcacheBinaryCodec", "trait Cache",
                    "mod impl_details/trait CacheImplDetails"
        options: ret=<binder>      name the return value:  -> T   becomes  -> (binder: T)
                 mutself           R4: receiver &self -> &mut self
                 safety=<ids>      properties charged with arithmetic / precondition failures in the body
                 attr=<text>       attribute line put before the fn (e.g. #[verifier::exec_allows_no_decreases_clause])
                 sigsub=<a>=><b>   literal substitution in the signature (R4 type substitutions), may repeat
        following lines up to //@endfn are annotation text:
           contract clauses (requires/ensures/decreases...) go between signature and body;
           "//@loop <k>" starts the invariant/decreases text for the k-th loop (textual order);
           "//@closure <k> | <typed head>" replaces the k-th closure head `|..|` (and optional `-> T`)
                          by the typed head and puts the following clauses after it;
           "//@proof <n> | <anchor text>" inserts the following ghost lines (must be `proof {..}` /
                          `assert..`) *before* the n-th occurrence of the anchor statement text.
        a clause line may end with  `// @ob <prop>[,<prop>..] <obligation-id>`

The assembled file is written with a side-car map (JSON): for each output line its origin
(template line / repo file+line), the obligation tag if any, and the enclosing extracted function.
"""
import sys, os, re, json, hashlib
sys.path.insert(0, os.path.dirname(os.path.abspath(__file__)))
import rsparse

REPO_SRC = os.environ.get('VERIF_REPO', '/repo') + '/memcrs/src/'
SPECS = os.path.join(os.path.dirname(os.path.dirname(os.path.abspath(__file__))), 'specs')

class AnchorError(Exception):
    """Lost anchor / unsupported shape: result must be 'undecided', never a violation."""
    pass

LOG_MACROS = ('debug', 'info', 'warn', 'error', 'trace')

def _strip_macro_stmts(text, counts):
    """R1: delete `debug!(..);` style statements (also `log::debug!`, `tracing::debug!`)."""
    m = rsparse.mask(text)
    out = []
    i = 0
    pat = re.compile(r'(?<![A-Za-z0-9_])(?:(?:log|tracing)::)?(' + '|'.join(LOG_MACROS) + r')!\s*\(')
    while True:
        mm = pat.search(m, i)
        if not mm:
            out.append(text[i:]); break
        op = mm.end() - 1
        cl = rsparse.match_close(m, op)
        j = cl + 1
        while j < len(m) and m[j] in ' \t': j += 1
        if j < len(m) and m[j] == ';':
            j += 1
            # remove the whole line if it only holds this statement
            ls = text.rfind('\n', 0, mm.start()) + 1
            if text[ls:mm.start()].strip() == '':
                le = j
                while le < len(text) and text[le] in ' \t': le += 1
                if le < len(text) and text[le] == '\n':
                    out.append(text[i:ls]); i = le + 1
                    counts['R1'] = counts.get('R1', 0) + 1
                    continue
            out.append(text[i:mm.start()]); i = j
            counts['R1'] = counts.get('R1', 0) + 1
        else:
            # expression position (not a statement): leave, Verus will complain -> undecided
            out.append(text[i:j]); i = j
    return ''.join(out)

def _format_to_empty(text, counts):
    """R2: `format!( .. )` -> `fmt_standin()` (a String about which nothing is known)."""
    m = rsparse.mask(text)
    out = []; i = 0
    pat = re.compile(r'(?<![A-Za-z0-9_])format!\s*\(')
    while True:
        mm = pat.search(m, i)
        if not mm:
            out.append(text[i:]); break
        cl = rsparse.match_close(m, mm.end() - 1)
        out.append(text[i:mm.start()]); out.append('fmt_standin()')
        i = cl + 1
        counts['R2'] = counts.get('R2', 0) + 1
    return ''.join(out)

def _drop_async(text, counts):
    """R3"""
    m = rsparse.mask(text)
    n = 0
    # .await
    res = []; i = 0
    for mm in re.finditer(r'\s*\.\s*await\b', m):
        res.append(text[i:mm.start()]); i = mm.end(); n += 1
    res.append(text[i:]); text = ''.join(res)
    m = rsparse.mask(text)
    res = []; i = 0
    for mm in re.finditer(r'\basync\s+(?=fn\b)', m):
        res.append(text[i:mm.start()]); i = mm.end(); n += 1
    res.append(text[i:]); text = ''.join(res)
    if n: counts['R3'] = counts.get('R3', 0) + n
    return text

KEEP_DERIVES = ('Clone', 'Copy', 'Default', 'PartialEq', 'Eq')
def _cut_derives(text, counts, keep=KEEP_DERIVES):
    """R5"""
    def repl(mm):
        names = [x.strip() for x in mm.group(1).split(',') if x.strip()]
        kept = [x for x in names if x in keep]
        if len(kept) != len(names):
            counts['R5'] = counts.get('R5', 0) + (len(names) - len(kept))
        if not kept: return ''
        return '#[derive(' + ', '.join(kept) + ')]'
    return re.sub(r'#\[derive\(([^)]*)\)\]', repl, text)

def _static_to_const(text, counts):
    """R6"""
    def repl(mm):
        counts['R6'] = counts.get('R6', 0) + 1
        return mm.group(1) + 'const ' + mm.group(2) + ": &'static str"
    return re.sub(r'(\b(?:pub\s+)?)static\s+([A-Z_0-9]+)\s*:\s*&\s*str', repl, text)

def _pub_crate(text, counts):
    """R11: `pub(crate)` -> `pub` (visibility only; Verus treats restricted fields as opaque in pub specs)"""
    n = len(re.findall(r'\bpub\s*\(\s*crate\s*\)', text))
    if n:
        counts['R11'] = counts.get('R11', 0) + n
        text = re.sub(r'\bpub\s*\(\s*crate\s*\)', 'pub', text)
    return text

def transform_common(text, counts, is_async=False):
    text = _strip_macro_stmts(text, counts)
    text = _format_to_empty(text, counts)
    if is_async:
        text = _drop_async(text, counts)
    text = _cut_derives(text, counts)
    text = _static_to_const(text, counts)
    text = _pub_crate(text, counts)
    n = len(re.findall(r'\bString::from\(', text))
    if n:
        text = re.sub(r'\bString::from\(', 'string_from_str(', text); counts['R12b'] = counts.get('R12b', 0) + n
    # R12b: std::cmp::min(a, b) / max(a, b) are by definition Ord::min(a, b) / Ord::max(a, b); vstd specifies the latter
    n = len(re.findall(r'(?<![\w:])(?:(?:std|core)::)?cmp::(min|max)\(', text))
    if n:
        text = re.sub(r'(?<![\w:])(?:(?:std|core)::)?cmp::(min|max)\(', r'Ord::\1(', text); counts['R12b'] = counts.get('R12b', 0) + n
    return text

# ------------------------------------------------------------------------------------------

_file_cache = {}
def load(repo_file):
    p = REPO_SRC + repo_file
    if p not in _file_cache:
        if not os.path.exists(p):
            raise AnchorError('file missing: ' + repo_file)
        src = open(p).read()
        try:
            items = rsparse.split_items(src)
        except rsparse.ParseError as e:
            raise AnchorError('cannot split %s: %s' % (repo_file, e))
        _file_cache[p] = (src, items)
    return _file_cache[p]

def containers(items, path):
    """path like 'impl X' or 'mod a/trait B'. Returns list of container items (several impl blocks
    with the same header are allowed)."""
    cur = [None]
    if path.strip() == '-':
        return cur
    for seg in path.split('/'):
        seg = ' '.join(seg.split())
        kind, _, name = seg.partition(' ')
        nxt = []
        for c in cur:
            its = items if c is None else c.children()
            nxt += [it for it in its if it.kind == kind and it.name == name]
        cur = nxt
    if not cur:
        raise AnchorError('container not found: ' + path)
    return cur

def find_fn(repo_file, container, name):
    src, items = load(repo_file)
    found = []
    for c in containers(items, container):
        its = items if c is None else c.children()
        found += [it for it in its if it.kind == 'fn' and it.name == name]
    if len(found) != 1:
        raise AnchorError('fn %s in %s [%s]: found %d' % (name, repo_file, container, len(found)))
    return src, found[0]

def sibling_fns(repo_file, container):
    src, items = load(repo_file)
    r = []
    for c in containers(items, container):
        its = items if c is None else c.children()
        r += [it.name for it in its if it.kind == 'fn']
    return r

def add_ret_binder(sig, binder):
    m = rsparse.mask(sig)
    # find top-level '->' after the parameter list
    k = m.find('(')
    cl = rsparse.match_close(m, k)
    mm = re.search(r'->\s*', m[cl:])
    if not mm:
        raise AnchorError('no return type to bind in: ' + sig.strip())
    a = cl + mm.end()
    # return type extends to 'where' or end
    w = re.search(r'\bwhere\b', m[a:])
    b = a + w.start() if w else len(sig)
    ty = sig[a:b].rstrip()
    tail = sig[a + len(ty):]
    return sig[:a] + '(' + binder + ': ' + ty + ')' + tail

def closure_heads(body):
    """Closures in textual order: returns list of (start, end) of the head `[move] |..| [-> T]`
    (end = index where the closure body expression starts)."""
    m = rsparse.mask(body)
    res = []
    i = 0
    n = len(m)
    while i < n:
        c = m[i]
        if c == '|':
            # a closure head starts with '|' preceded (ignoring ws) by one of ( , = { ; or `move` or `&mut`/& or start
            j = i - 1
            while j >= 0 and m[j].isspace(): j -= 1
            prev = m[j] if j >= 0 else ''
            word = re.search(r'([A-Za-z_]+)\s*$', m[:i])
            is_head = prev in '(,={;&' or (word and word.group(1) in ('move', 'mut', 'return'))
            if m[i:i+2] == '||' and is_head:
                # zero-arg closure
                end = i + 2
            elif is_head:
                end = m.find('|', i + 1)
                if end < 0: raise AnchorError('closure head not closed')
                end += 1
            else:
                i += 1; continue
            start = i
            if word and word.group(1) == 'move':
                start = word.start(1)
            # optional -> T
            mm = re.match(r'\s*->\s*[^\{]+', m[end:])
            if mm: end += mm.end()
            res.append((start, end))
            i = end
        else:
            i += 1
    return res

class Assembler:
    def __init__(self, unit):
        self.unit = unit
        self.out = []          # output lines
        self.map = []          # per output line: dict
        self.functions = []    # evidence: functions under contract
        self.rule_counts = {}
        self.obligations = {}  # id -> {props, line(s), fn, text}
        self.fn_ranges = []    # (first_line, last_line, fn qualified name, safety props)
        self.containers_seen = {}  # (file, container) -> set(fn names used)
        self.items_used = []

    def emit(self, line, origin, ob=None, fn=None):
        self.out.append(line)
        self.map.append({'origin': origin, 'ob': ob, 'fn': fn})

    def emit_block(self, text, origin, fn=None):
        for ln in text.split('\n'):
            self.emit(ln, origin, None, fn)

    def parse_ob(self, line):
        mm = re.search(r'//\s*@ob\s+(\S+)\s+(\S+)\s*$', line)
        if not mm: return None
        props = mm.group(1).split(',')
        oid = mm.group(2)
        return props, oid

    def annotation_lines(self, lines, origin, fnname, kind):
        """emit annotation lines, registering obligations"""
        for (tl, ln) in lines:
            ob = self.parse_ob(ln)
            oid = None
            if ob:
                props, oid = ob
                ent = self.obligations.setdefault(oid, {'props': props, 'fn': fnname, 'text': [], 'kind': kind, 'lines': []})
                ent['text'].append(re.sub(r'//\s*@ob.*$', '', ln).strip())
                ent['lines'].append(len(self.out) + 1)
            self.emit(ln, '%s:%d' % (origin, tl), oid, fnname)

    def do_include(self, path, tline):
        p = os.path.join(SPECS, path)
        txt = open(p).read().rstrip('\n')
        for k, ln in enumerate(txt.split('\n')):
            ob = self.parse_ob(ln)
            oid = None
            if ob:
                props, oid = ob
                ent = self.obligations.setdefault(oid, {'props': props, 'fn': None, 'text': [], 'kind': 'lemma', 'lines': []})
                ent['text'].append(re.sub(r'//\s*@ob.*$', '', ln).strip())
                ent['lines'].append(len(self.out) + 1)
            self.emit(ln, 'specs/%s:%d' % (path, k + 1), oid)

    def do_items(self, repo_file, selectors, opts):
        src, items = load(repo_file)
        for sel in selectors:
            sel = ' '.join(sel.split())
            kind, _, name = sel.partition(' ')
            if kind == '*':
                cand = [it for it in items if it.kind not in ('use', 'mod', 'other', 'macro_rules!')]
            elif kind == 'impl':
                cand = [it for it in items if it.kind == 'impl' and it.name == name]
            elif name == '*':
                cand = [it for it in items if it.kind == kind]
            else:
                cand = [it for it in items if it.kind == kind and it.name == name]
            if not cand:
                raise AnchorError('item not found: %s in %s' % (sel, repo_file))
            for it in cand:
                if '#[cfg(test)]' in it.attrs:
                    self.rule_counts['R9'] = self.rule_counts.get('R9', 0) + 1
                    continue
                counts = {}
                # attrs: keep only derive (cut) and repr
                attrs = '\n'.join(a for a in re.findall(r'#\[[^\]]*\]', it.attrs) if a.startswith('#[derive') or a.startswith('#[repr'))
                text = (attrs + '\n' if attrs else '') + it.proper
                text = transform_common(text, counts)
                if opts.get('dropderive'):
                    keep = tuple(x for x in KEEP_DERIVES if x not in opts['dropderive'])
                    text = _cut_derives(text, counts, keep)
                if it.kind in ('struct', 'enum', 'type') and not re.match(r'\s*(#\[[^\]]*\]\s*)*pub\b', text):
                    text = re.sub(r'(?m)^(\s*)(struct|enum|type)\b', r'\1pub \2', text, count=1)
                    counts['R11'] = counts.get('R11', 0) + 1
                if it.kind == 'enum' and re.search(r'#\[derive\([^)]*\bPartialEq\b', text):
                    inner = rsparse.mask(it.body)[1:-1]
                    if '(' not in inner and '{' not in inner:
                        # R5b: field-less enum with derived PartialEq: tell Verus that `==` is structural
                        def _st(mm):
                            names = [x.strip() for x in mm.group(1).split(',') if x.strip()]
                            for extra in ('Eq', 'Structural'):
                                if extra not in names: names.append(extra)
                            return '#[derive(' + ', '.join(names) + ')]'
                        text = re.sub(r'#\[derive\(([^)]*)\)\]', _st, text, count=1)
                        counts['R5b'] = counts.get('R5b', 0) + 1
                if it.kind == 'struct' and it.body_open is not None:
                    # R11: private fields -> pub (visibility only)
                    def _pubfield(mm):
                        counts['R11'] = counts.get('R11', 0) + 1
                        return mm.group(1) + 'pub ' + mm.group(2)
                    text = re.sub(r'(?m)^(\s*)(?!pub\b)([a-z_][A-Za-z0-9_]*\s*:(?!:))', _pubfield, text)
                for (a, b) in opts.get('sub', []):
                    if a in text:
                        text = text.replace(a, b); counts['R4'] = counts.get('R4', 0) + 1
                for k, v in counts.items():
                    self.rule_counts[k] = self.rule_counts.get(k, 0) + v
                ls = it.line_span()
                self.items_used.append({'file': repo_file, 'item': it.kind + ' ' + it.name, 'lines': ls,
                                        'sha256': hashlib.sha256(it.proper.encode()).hexdigest()[:16]})
                fnname = None
                first = len(self.out) + 1
                self.emit_block(text, '%s:%d' % (repo_file, ls[0]))
                if it.kind in ('impl', 'fn'):
                    self.fn_ranges.append((first, len(self.out), repo_file + '::' + it.kind + ' ' + it.name, opts.get('safety', [])))

    def helper_table(self, repo_file, container):
        """functions of the file that are NOT under contract in this template: free functions, and methods of the
        same impl blocks as `container` (and of the plain `impl Type` of a trait impl's type)"""
        src, items = load(repo_file)
        cov = self.covered.get(repo_file, set())
        table = {}
        for it in items:
            if it.kind == 'fn' and it.name not in cov and '#[cfg(test)]' not in it.attrs:
                table[it.name] = ('free', it)
        conts = []
        if container.strip() != '-':
            last = container.split('/')[-1].strip()
            if last.startswith('impl '):
                ty = last[5:].split(' for ')[-1].strip()
                conts = [it for it in items if it.kind == 'impl' and (it.name == ty or it.name.endswith(' for ' + ty))]
            elif last.startswith('trait '):
                conts = containers(items, container)
        for c in conts:
            for it in c.children():
                if it.kind == 'fn' and it.name not in cov and '#[cfg(test)]' not in it.attrs:
                    table[it.name] = ('method', it)
        return table

    def inline_helpers(self, repo_file, container, body, counts, qual, is_async):
        """R13: a call to a function of the same file that has no contract in this template (a helper introduced after
        the contracts were written) is inlined: `f(a, b)` -> `{ let p = a; let q = b; <body of f> }`.  Refused (anchor
        error) if the helper's body contains `return` or `?`, is generic, or takes `self` by value."""
        table = self.helper_table(repo_file, container)
        if not table: return body
        for depth in range(6):
            m = rsparse.mask(body)
            hit = None
            for name, (kind, it) in table.items():
                ty = container.split('/')[-1].strip()
                ty = ty[5:].split(' for ')[-1].strip() if ty.startswith('impl ') else 'Self'
                pat = (r'(?<![A-Za-z0-9_])(?:self\s*\.\s*|Self::|' + re.escape(ty) + r'::)' if kind == 'method' else r'(?<![A-Za-z0-9_.:])') + re.escape(name) + r'\s*\('
                mm = re.search(pat, m)
                if mm: hit = (name, kind, it, mm); break
            if not hit: return body
            name, kind, it, mm = hit
            op = mm.end() - 1
            cl = rsparse.match_close(m, op)
            args_txt = body[op + 1:cl]
            am = rsparse.mask(args_txt)
            args = []; depth_b = 0; cur = 0
            for k, ch in enumerate(am):
                if ch in '([{<': depth_b += 1
                elif ch in ')]}>': depth_b -= 1
                elif ch == ',' and depth_b == 0:
                    args.append(args_txt[cur:k].strip()); cur = k + 1
            if args_txt[cur:].strip(): args.append(args_txt[cur:].strip())
            sigm = rsparse.mask(it.sig)
            if re.search(r'fn\s+' + re.escape(name) + r'\s*<', sigm):
                raise AnchorError('R13: helper %s is generic, cannot inline into %s' % (name, qual))
            po = sigm.index('(')
            pc = rsparse.match_close(sigm, po)
            ptxt = it.sig[po + 1:pc]
            pm = rsparse.mask(ptxt)
            params = []; depth_b = 0; cur = 0
            for k, ch in enumerate(pm):
                if ch in '([{<': depth_b += 1
                elif ch in ')]}>': depth_b -= 1
                elif ch == ',' and depth_b == 0:
                    params.append(ptxt[cur:k].strip()); cur = k + 1
            if ptxt[cur:].strip(): params.append(ptxt[cur:].strip())
            pats = []
            for prm in params:
                if re.match(r'&\s*(\'[a-z_]+\s+)?(mut\s+)?self$', prm): continue
                if prm in ('self', 'mut self'):
                    raise AnchorError('R13: helper %s takes self by value' % name)
                pats.append(prm.split(':', 1)[0].strip())
            if len(pats) != len(args):
                raise AnchorError('R13: arity mismatch inlining %s into %s' % (name, qual))
            hb = transform_common(it.body, {}, is_async)
            hm = rsparse.mask(hb)
            if re.search(r'\breturn\b', hm):
                import chainrw
                hb = chainrw.eliminate_guard_returns(hb)      # guard-style early returns -> if/else
                hm = rsparse.mask(hb)
            if re.search(r'\breturn\b', hm) or '?' in hm:
                raise AnchorError('R13: helper %s contains return/?: cannot inline into %s' % (name, qual))
            lets = ''.join('let %s = %s; ' % (pt, a) for pt, a in zip(pats, args))
            repl = '{ ' + lets + hb.strip()[1:-1].strip() + ' }'
            body = body[:mm.start()] + repl + body[cl + 1:]
            counts['R13'] = counts.get('R13', 0) + 1
            self.containers_seen.setdefault((repo_file, container), set()).add(name)
            self.inlined = getattr(self, 'inlined', set()) | {(repo_file, name)}
        raise AnchorError('R13: helper inlining does not terminate in ' + qual)

    def do_fn_guarded(self, repo_file, container, name, opts, ann, tline):
        """do_fn, but a function whose annotations can no longer be attached (lost loop/closure/proof anchor, a
        helper R13 must refuse, a substitution anchor) - or that the caller asks to degrade after a verifier
        front-end error inside it - is kept as signature + contract with its body dropped (ASSUMED for this run) and
        reported in meta['degraded_fns']: only the properties its obligations carry become undecided, not the unit."""
        qual = '%s::%s::%s' % (repo_file, container, name)
        want = getattr(self, 'degrade', {}) or {}
        if 'assumed' in opts:
            return self.do_fn(repo_file, container, name, opts, ann, tline)
        reason = want.get(qual)
        try:
            find_fn(repo_file, container, name)
        except AnchorError as e:
            # RENAMED?  If exactly one function of the container that has no contract in this template has the body the
            # missing one had when the baseline was written, the contract moves to the new name.
            try:
                base = json.load(open(os.path.join(SPECS, 'baseline_functions.json')))
            except Exception:
                base = {}
            want_body = (base.get(qual) or {}).get('body') if isinstance(base.get(qual), dict) else None
            if want_body:
                src_, items_ = load(repo_file)
                cands = []
                for c in containers(items_, container):
                    for it2 in (items_ if c is None else c.children()):
                        if it2.kind == 'fn' and it2.name not in self.covered.get(repo_file, set()) and hashlib.sha256(it2.body.encode()).hexdigest()[:16] == want_body:
                            cands.append(it2.name)
                if len(cands) == 1:
                    self.renamed = getattr(self, 'renamed', []) + [{'fn': qual, 'now': cands[0]}]
                    self.rule_counts['Rrename'] = self.rule_counts.get('Rrename', 0) + 1
                    return self.do_fn_guarded(repo_file, container, cands[0], opts, ann, tline)
            # GONE (removed, or folded into its callers): nothing can be emitted for it and its obligations have no
            # subject any more.  They were there to carry its callers, which must now prove their own contracts from
            # the code that replaced the call; a new function of a closed container that is neither inlined by R13 nor
            # matched as a rename stops the unit (`//@closed`).
            obs = {}
            for (tl, ln) in ann:
                m = re.search(r'//\s*@ob\s+(\S+)\s+(\S+)\s*$', ln)
                if m: obs[m.group(2)] = m.group(1).split(',')
            self.gone = getattr(self, 'gone', []) + [{'fn': qual, 'reason': 'function no longer exists: ' + str(e), 'void_obligations': sorted(obs)}]
            return
        if reason is None:
            snap = (len(self.out), len(self.map), len(self.functions), dict(self.obligations), len(self.fn_ranges), dict(self.rule_counts),
                    list(getattr(self, 'assumed', [])), {k: set(v) for k, v in self.containers_seen.items()}, set(getattr(self, 'inlined', set())))
            try:
                return self.do_fn(repo_file, container, name, opts, ann, tline)
            except AnchorError as e:
                find_fn(repo_file, container, name)      # a function that is gone cannot be degraded: re-raises
                del self.out[snap[0]:]; del self.map[snap[1]:]; del self.functions[snap[2]:]; self.obligations = snap[3]; del self.fn_ranges[snap[4]:]
                self.rule_counts = snap[5]; self.assumed = snap[6]; self.containers_seen = snap[7]; self.inlined = snap[8]
                reason = str(e)
        obs = {}
        contract_only = []
        in_contract = True
        for (tl, ln) in ann:
            st = ln.strip()
            if st.startswith(('//@loop', '//@closure', '//@proof')): in_contract = False
            if st.startswith('//@contract'):
                cf = os.path.join(SPECS, 'contracts', st.split()[1])
                for cl in open(cf).read().split('\n'):
                    m = re.search(r'//\s*@ob\s+(\S+)\s+(\S+)\s*$', cl)
                    if m: obs[m.group(2)] = m.group(1).split(',')
            m = re.search(r'//\s*@ob\s+(\S+)\s+(\S+)\s*$', ln)
            if m: obs[m.group(2)] = m.group(1).split(',')
            if in_contract: contract_only.append((tl, ln))
        self.degraded = getattr(self, 'degraded', []) + [{'fn': qual, 'reason': reason, 'obligations': obs, 'safety': list(opts.get('safety', []))}]
        opts2 = dict(opts); opts2['assumed'] = 'DEGRADED in this run (body not verified): ' + reason[:200]
        for k in ('chainrw', 'resub', 'inline', 'bodysub'): opts2.pop(k, None)
        opts2['bodysub'] = []
        return self.do_fn(repo_file, container, name, opts2, contract_only, tline)

    def do_fn(self, repo_file, container, name, opts, ann, tline):
        src, it = find_fn(repo_file, container, name)
        self.containers_seen.setdefault((repo_file, container), set()).add(name)
        counts = {}
        qual = '%s::%s::%s' % (repo_file, container, name)
        is_async = 'async' in opts
        sig = it.sig
        body = it.body
        if '#[cfg(test)]' in it.attrs:
            raise AnchorError('fn under contract is cfg(test): ' + qual)
        sig = transform_common(sig, counts, is_async)
        body = transform_common(body, counts, is_async)
        if 'mutself' in opts:
            new = re.sub(r'&\s*(\'[a-z_]+\s+)?self\b', lambda m: '&' + (m.group(1) or '') + 'mut self', sig, count=1)
            if new != sig:
                counts['R4'] = counts.get('R4', 0) + 1
            sig = new
        for (a, b) in opts.get('sigsub', []):
            if a not in sig:
                raise AnchorError('signature substitution anchor lost in %s: %r' % (qual, a))
            sig = sig.replace(a, b); counts['R4'] = counts.get('R4', 0) + 1
        for (a, b) in opts.get('bodysub', []):
            if a not in body:
                raise AnchorError('body substitution anchor lost in %s: %r' % (qual, a))
            body = body.replace(a, b); counts['Rsub'] = counts.get('Rsub', 0) + 1
        if opts.get('chainrw'):
            # R12: Result adapter chains with closure arguments -> match expressions (tools/chainrw.py)
            import chainrw
            try:
                body, nrw = chainrw.rewrite(body)
            except Exception as e:
                raise AnchorError('R12 cannot desugar the adapter chains of %s: %s' % (qual, e))
            counts['R12'] = counts.get('R12', 0) + nrw
        for (a, b) in opts.get('resub', []):
            body2, k = re.subn(a, b, body)
            if k == 0:
                raise AnchorError('R12b substitution anchor lost in %s: %r' % (qual, a))
            body = body2; counts['R12b'] = counts.get('R12b', 0) + k
        for callee in opts.get('inline', []):
            # R4b: a call `self.<callee>()` is replaced by the callee's one-expression body taken from /repo
            # (needed where R4 widened the callee's receiver to &mut self and the call sits under a live guard)
            csrc, cit = find_fn(repo_file, container if ' for ' not in container else 'impl ' + container.split(' for ')[1], callee)
            cb = transform_common(cit.body, {}, is_async).strip()
            inner = cb[1:-1].strip()
            if ';' in rsparse.mask(inner) or '\n' in inner.strip():
                raise AnchorError('callee %s is not a single expression any more; cannot inline into %s' % (callee, qual))
            call = 'self.%s()' % callee
            if call not in body:
                raise AnchorError('inline anchor lost in %s: %s' % (qual, call))
            body = body.replace(call, inner); counts['R4b'] = counts.get('R4b', 0) + 1
        if 'assumed' not in opts:
            body = self.inline_helpers(repo_file, container, body, counts, qual, is_async)
        if 'ret' in opts:
            sig = add_ret_binder(sig, opts['ret'])
        if 'assumed' in opts:
            # body NOT verified: only the signature comes from /repo; the contract is an assumption
            body = '{ unimplemented!() }'
            opts['attr'] = list(opts['attr']) + ['#[verifier::external_body]']
            self.assumed = getattr(self, 'assumed', []) + [{'fn': qual, 'checked_by': opts['assumed']}]
        # split annotations
        contract, loops, closures, proofs = [], {}, {}, []
        cur = contract
        ann2 = []
        for (tl, ln) in ann:
            if ln.strip().startswith('//@contract'):
                cf = os.path.join(SPECS, 'contracts', ln.strip().split()[1])
                for k, cl in enumerate(open(cf).read().rstrip('\n').split('\n')):
                    ann2.append((tl, cl))
            else:
                ann2.append((tl, ln))
        if 'assumed' in opts:
            # the contract is an assumption in this unit: its clauses are not obligations here
            ann2 = [(tl, re.sub(r'//\s*@ob\s+\S+\s+\S+\s*$', '// (assumed here; proved or checked elsewhere: %s)' % opts['assumed'], ln)) for (tl, ln) in ann2]
        ann = ann2
        # //@locals a,b,c : the let-bound names of the function body, in textual order, as they were when the
        # annotations below were written.  If /repo has since RENAMED locals (same number of bindings), the names in
        # the annotations are re-bound positionally and the function is marked `rebound` (a proof failure in a rebound
        # function is never reported as a violation, see vf.py); if bindings were added or removed the template names
        # are used as they are (names that no longer exist then surface as a front-end error -> the function is degraded).
        rebound = False
        loc_decl = [ln.strip()[len('//@locals'):].strip() for (tl, ln) in ann if ln.strip().startswith('//@locals')]
        ann = [(tl, ln) for (tl, ln) in ann if not ln.strip().startswith('//@locals')]
        if loc_decl and 'assumed' not in opts:
            want = [x.strip() for x in loc_decl[0].split(',') if x.strip()]
            have = re.findall(r'\blet\s+(?:mut\s+)?([a-z_][A-Za-z0-9_]*)\b', rsparse.mask(body))
            if have != want and len(have) == len(want):
                mp = {a: b for a, b in zip(want, have) if a != b}
                def rb(ln):
                    return re.sub(r'\b(' + '|'.join(re.escape(k) for k in mp) + r')\b', lambda m: mp[m.group(1)], ln) if mp else ln
                ann = [(tl, ln if ln.strip().startswith('//@') else rb(ln)) for (tl, ln) in ann]
                rebound = True
                counts['Rrebind'] = len(mp)
        for (tl, ln) in ann:
            s = ln.strip()
            if s.startswith('//@loop'):
                k = int(s.split()[1]); cur = loops.setdefault(k, []); continue
            if s.startswith('//@closure'):
                head = s.split('|', 1)
                k = int(head[0].split()[1])
                cur = []
                closures[k] = (head[1].strip() if len(head) > 1 else None, cur); continue
            if s.startswith('//@proofafter'):
                spec = s[len('//@proofafter'):].strip()
                nth, _, anchor = spec.partition('|')
                cur = []
                proofs.append((int(nth.strip()), anchor.strip(), cur, 'after')); continue
            if s.startswith('//@proof'):
                spec = s[len('//@proof'):].strip()
                nth, _, anchor = spec.partition('|')
                cur = []
                proofs.append((int(nth.strip()), anchor.strip(), cur, 'before')); continue
            cur.append((tl, ln))
        # insertion points inside body (indices in body text)
        inserts = []   # (index, kind, payload)
        bm = rsparse.mask(body)
        lp = rsparse.top_level_loops(bm)
        for k, lines in loops.items():
            if k >= len(lp):
                raise AnchorError('loop ordinal %d not found in %s (has %d loops)' % (k, qual, len(lp)))
            inserts.append((lp[k][1], 'ann', lines, None))
        if any(k >= 0 for k in closures):
            ch = closure_heads(body)
            for k, (head, lines) in closures.items():
                if k >= len(ch):
                    raise AnchorError('closure ordinal %d not found in %s (has %d)' % (k, qual, len(ch)))
                inserts.append((ch[k][0], 'closure', lines, (ch[k][1], head)))
        for (nth, anchor, lines, where) in proofs:
            if anchor == '<start>':
                # the very beginning of the function body (where Verus wants `hide(..)` / `reveal(..)` headers)
                inserts.append((body.index('{') + 1, 'proof', lines, None)); continue
            pos = -1
            for _ in range(nth + 1):
                pos = body.find(anchor, pos + 1)
                if pos < 0:
                    raise AnchorError('proof anchor lost in %s: %r' % (qual, anchor))
            if where == 'before':
                ls = body.rfind('\n', 0, pos) + 1      # start of the anchor's line
            else:
                ls = body.find('\n', pos) + 1            # start of the line after the anchor's line (the anchor line opens a block or is a whole statement)
                if not body[pos:ls].rstrip().endswith(('{', ';')):
                    raise AnchorError('proofafter anchor neither opens a block nor ends a statement in %s: %r' % (qual, anchor))
            inserts.append((ls, 'proof', lines, None))
        inserts.sort(key=lambda x: x[0])
        ls = it.line_span()
        self.functions.append({'fn': qual, 'file': repo_file, 'lines': ls,
                               'sha256': hashlib.sha256(it.proper.encode()).hexdigest()[:16],
                               'body_sha': hashlib.sha256(it.body.encode()).hexdigest()[:16],
                               'n_closures': len(closure_heads(it.body)),
                               'n_adapters': len(re.findall(r'\.(?:map|map_err|and_then|and|or|or_else|unwrap_or_else|unwrap_or_default|filter|filter_map|for_each|fold|any|all|ok_or_else|map_or|map_or_else|then|then_some|zip|flatten|take_while|skip_while)\s*\(', rsparse.mask(it.body))),
                               'rules': counts, 'rebound': rebound,
                               'annotated_body': bool(loops) or any(a != '<start>' for (_, a, _, _) in proofs) or bool(closures)})
        for k, v in counts.items():
            self.rule_counts[k] = self.rule_counts.get(k, 0) + v
        first = len(self.out) + 1
        if 'attr' in opts:
            for a in opts['attr']:
                self.emit(a, 'template:%d' % tline, None, qual)
        origin = '%s:%d' % (repo_file, ls[0])
        self.emit_block(sig.rstrip(), origin, qual)
        probe_line = None
        if getattr(self, 'probe', False) and 'assumed' not in opts:
            # vacuity probe (thorough tier): `assert(false)` as the first statement of the body MUST fail - if it
            # verifies, the function's precondition (or a type invariant it relies on) is contradictory.  It is an
            # in-body assertion, so it does not leak into the contracts callers see.
            ptag = 'probe.%s.%d' % (name, len(self.functions))
            probe_line = (tline, '        proof { assert(false); } // @ob PROBE %s' % ptag)
        self.annotation_lines(contract, 'template', qual, 'contract')
        pos = 0
        if probe_line is not None:
            for (idx, kind, lines, extra) in inserts:
                if kind == 'proof' and any('hide(' in ln for (_, ln) in lines):
                    lines.append(probe_line); probe_line = None
                    break
        if probe_line is not None:
            ob = body.index('{')
            self.emit_block(body[:ob + 1], origin, qual)
            self.annotation_lines([probe_line], 'template', qual, 'proof')
            pos = ob + 1
            inserts = [x for x in inserts if x[0] >= pos]
        for (idx, kind, lines, extra) in inserts:
            if kind == 'ann':
                self.emit_block(body[pos:idx].rstrip(' \t'), origin, qual)
                self.annotation_lines(lines, 'template', qual, 'loop')
                pos = idx
            elif kind == 'proof':
                chunk = body[pos:idx]
                if chunk.endswith('\n'): chunk = chunk[:-1]
                self.emit_block(chunk, origin, qual)
                self.annotation_lines(lines, 'template', qual, 'proof')
                pos = idx
            else:
                end, head = extra
                self.emit_block(body[pos:idx].rstrip(' \t'), origin, qual)
                if head is not None:
                    self.emit(head, 'template', None, qual)
                    counts['Rclosure'] = counts.get('Rclosure', 0) + 1
                else:
                    self.emit(body[idx:end], origin, None, qual)
                self.annotation_lines(lines, 'template', qual, 'closure')
                pos = end
                # a closure with a contract needs a block body: `|x| e` is written `|x| { e }` (same meaning)
                rest = rsparse.mask(body)[end:]
                if rest.lstrip()[:1] != '{':
                    depth = 0; e2 = len(rest)
                    for q, ch in enumerate(rest):
                        if ch in '([{': depth += 1
                        elif ch in ')]}':
                            if depth == 0: e2 = q; break
                            depth -= 1
                        elif ch in ',;' and depth == 0: e2 = q; break
                    self.emit('{ ' + body[end:end + e2].strip() + ' }', origin, None, qual)
                    counts['Rclosure_block'] = counts.get('Rclosure_block', 0) + 1
                    pos = end + e2
        self.emit_block(body[pos:], origin, qual)
        self.fn_ranges.append((first, len(self.out), qual, opts.get('safety', [])))

    def run(self, tpl_path):
        lines = open(tpl_path).read().split('\n')
        # pre-pass: which functions of which file are under contract in this template (R13 needs to know)
        self.covered = {}
        for ln in lines:
            st = ln.strip()
            if st.startswith('//@fn'):
                parts = [p.strip() for p in st[len('//@fn'):].split('|')]
                self.covered.setdefault(parts[0], set()).add(parts[2])
            if st.startswith('//@closed'):
                parts = [p.strip() for p in st[len('//@closed'):].split('|')]
                for p in parts[2:]:
                    if p.startswith('allow='): self.covered.setdefault(parts[0], set()).update(x for x in p[6:].split(',') if x)
        i = 0
        while i < len(lines):
            ln = lines[i]
            s = ln.strip()
            if s.startswith('//@probeinclude'):
                if getattr(self, 'probe', False):
                    self.do_include(s.split(None, 1)[1].strip(), i + 1)
            elif s.startswith('//@include'):
                self.do_include(s.split(None, 1)[1].strip(), i + 1)
            elif s.startswith('//@items'):
                parts = [p.strip() for p in s[len('//@items'):].split('|')]
                opts = {'sub': [], 'safety': []}
                for p in parts[2:]:
                    if p.startswith('sub='):
                        a, b = p[4:].split('=>'); opts['sub'].append((a, b))
                    elif p.startswith('safety='):
                        opts['safety'] = p[7:].split(',')
                    elif p.startswith('dropderive='):
                        opts['dropderive'] = p[11:].split(',')
                self.do_items(parts[0], parts[1].split(','), opts)
            elif s.startswith('//@fn'):
                parts = [p.strip() for p in s[len('//@fn'):].split('|')]
                repo_file, container, name = parts[0], parts[1], parts[2]
                opts = {'sigsub': [], 'bodysub': [], 'attr': [], 'safety': []}
                for p in parts[3:]:
                    if p.startswith('ret='): opts['ret'] = p[4:]
                    elif p == 'mutself': opts['mutself'] = True
                    elif p == 'async': opts['async'] = True
                    elif p == 'chainrw': opts['chainrw'] = True
                    elif p.startswith('resub='):
                        a, b = p[6:].split('=>'); opts.setdefault('resub', []).append((a, b))
                    elif p.startswith('inline='): opts.setdefault('inline', []).append(p[7:])
                    elif p.startswith('assumed'): opts['assumed'] = p.partition('=')[2] or 'unchecked'
                    elif p.startswith('noclone'): pass
                    elif p.startswith('safety='): opts['safety'] = p[7:].split(',')
                    elif p.startswith('attr='): opts['attr'].append(p[5:])
                    elif p.startswith('sigsub='):
                        a, b = p[7:].split('=>'); opts['sigsub'].append((a, b))
                    elif p.startswith('bodysub='):
                        a, b = p[8:].split('=>'); opts['bodysub'].append((a, b))
                    elif p:
                        raise AnchorError('unknown option %r at template line %d' % (p, i + 1))
                ann = []
                i += 1
                while i < len(lines) and not lines[i].strip().startswith('//@endfn'):
                    ann.append((i + 1, lines[i])); i += 1
                self.do_fn_guarded(repo_file, container, name, opts, ann, i + 1)
            elif s.startswith('//@stmt'):
                # //@stmt <repo file> | <container or -> | <fn> | <statement prefix> : R14 - ONE statement of a function that
                # cannot be brought under contract as a whole (it builds threads / runtimes) is sliced out verbatim: from
                # the first occurrence of the prefix at the start of a statement to the `;` that ends it.  Everything
                # else of that function is dropped - stated in the evidence as `slice`.
                parts = [p.strip() for p in s[len('//@stmt'):].split('|')]
                src, it = find_fn(parts[0], parts[1], parts[2])
                counts = {}
                body = transform_common(it.body, counts)
                bm = rsparse.mask(body)
                k = bm.find(parts[3])
                if k < 0:
                    raise AnchorError('statement anchor lost in %s::%s: %r' % (parts[0], parts[2], parts[3]))
                depth = 0; e = -1
                for q in range(k, len(bm)):
                    ch = bm[q]
                    if ch in '([{': depth += 1
                    elif ch in ')]}': depth -= 1
                    elif ch == ';' and depth == 0: e = q; break
                if e < 0:
                    raise AnchorError('statement not terminated in %s::%s: %r' % (parts[0], parts[2], parts[3]))
                stmt = body[k:e + 1]
                counts['R14'] = 1
                for kk, v in counts.items():
                    self.rule_counts[kk] = self.rule_counts.get(kk, 0) + v
                ls = it.line_span()
                self.functions.append({'fn': '%s::%s::%s#slice(%s)' % (parts[0], parts[1], parts[2], parts[3]), 'file': parts[0], 'lines': ls,
                                       'sha256': hashlib.sha256(stmt.encode()).hexdigest()[:16], 'body_sha': hashlib.sha256(stmt.encode()).hexdigest()[:16],
                                       'rules': counts, 'rebound': False, 'annotated_body': False, 'slice': True})
                self.emit_block(stmt, '%s:%d' % (parts[0], ls[0]))
            elif s.startswith('//@consts'):
                # //@consts <repo file> | <container or -> : every const/static item of the container (zero or more), verbatim (R6)
                parts = [p.strip() for p in s[len('//@consts'):].split('|')]
                src, items = load(parts[0])
                for c in containers(items, parts[1]):
                    its = items if c is None else c.children()
                    for it in its:
                        if it.kind in ('const', 'static') and '#[cfg(test)]' not in it.attrs:
                            counts = {}
                            text = transform_common(it.proper, counts)
                            # R6b: Verus consts are dual-mode, so their initialisers cannot call exec-only functions;
                            # `size_of::<primitive>()` is replaced by the size the language guarantees (usize: 8, as
                            # declared by `global size_of usize == 8` in the prelude)
                            def so(m):
                                counts['R6b'] = counts.get('R6b', 0) + 1
                                return {'u8': '1', 'i8': '1', 'u16': '2', 'i16': '2', 'u32': '4', 'i32': '4', 'u64': '8', 'i64': '8', 'usize': '8', 'isize': '8'}[m.group(1)]
                            text = re.sub(r'(?:(?:std|core)::)?mem::size_of::<(u8|i8|u16|i16|u32|i32|u64|i64|usize|isize)>\(\)', so, text)
                            if not re.match(r'\s*pub\b', text):
                                text = 'pub ' + text.lstrip(); counts['R11'] = counts.get('R11', 0) + 1
                            for k, v in counts.items():
                                self.rule_counts[k] = self.rule_counts.get(k, 0) + v
                            ls = it.line_span()
                            self.items_used.append({'file': parts[0], 'item': it.kind + ' ' + it.name, 'lines': ls, 'sha256': hashlib.sha256(it.proper.encode()).hexdigest()[:16]})
                            self.emit_block(text, '%s:%d' % (parts[0], ls[0]))
            elif s.startswith('//@fields'):
                # //@fields <repo file> | struct Name | a,b,c  : the prelude declares this struct; its field names must match /repo (R10)
                parts = [p.strip() for p in s[len('//@fields'):].split('|')]
                src, items = load(parts[0])
                kind, _, name = parts[1].partition(' ')
                cand = [it for it in items if it.kind == kind and it.name == name]
                if len(cand) != 1:
                    raise AnchorError('declaration not found: %s in %s' % (parts[1], parts[0]))
                inner = rsparse.mask(cand[0].body)[1:-1]
                # top-level fields: split on commas at depth 0
                names = []
                depth = 0; cur = ''
                for ch in inner:
                    if ch in '([{<': depth += 1
                    elif ch in ')]}>': depth -= 1
                    if ch == ',' and depth == 0:
                        names.append(cur); cur = ''
                    else: cur += ch
                names.append(cur)
                names = [re.sub(r'^\s*(pub(\([^)]*\))?\s+)?', '', n.strip()).split(':')[0].strip() for n in names if ':' in n]
                want = [x.strip() for x in parts[2].split(',') if x.strip()]
                if names != want:
                    raise AnchorError('fields of %s changed: repo has %s, prelude declares %s' % (parts[1], names, want))
                self.emit('// R10: declaration of %s written in the prelude; field names checked against %s: %s' % (parts[1], parts[0], ','.join(want)), 'template:%d' % (i + 1))
            elif s.startswith('//@closed'):
                # //@closed <repo file> | <container> | allow=a,b,c : every fn of the container must be under
                # contract in this unit or listed in allow (else: undecided)
                parts = [p.strip() for p in s[len('//@closed'):].split('|')]
                allow = set()
                for p in parts[2:]:
                    if p.startswith('allow='): allow = set(x for x in p[6:].split(',') if x)
                self.closed = getattr(self, 'closed', []) + [(parts[0], parts[1], allow)]
            else:
                ob = self.parse_ob(ln)
                oid = None
                if ob:
                    props, oid = ob
                    ent = self.obligations.setdefault(oid, {'props': props, 'fn': None, 'text': [], 'kind': 'lemma', 'lines': []})
                    ent['text'].append(re.sub(r'//\s*@ob.*$', '', ln).strip())
                    ent['lines'].append(len(self.out) + 1)
                self.emit(ln, 'template:%d' % (i + 1), oid)
            i += 1
        for (rf, cont, allow) in getattr(self, 'closed', []):
            have = set(sibling_fns(rf, cont))
            used = self.containers_seen.get((rf, cont), set())
            inl = set(n for (f, n) in getattr(self, 'inlined', set()) if f == rf)
            extra = have - used - allow - inl
            if extra:
                raise AnchorError('functions in %s [%s] not under contract: %s' % (rf, cont, ', '.join(sorted(extra))))

def assemble(unit, outdir, probe=False, degrade=None):
    tpl = os.path.join(SPECS, 'units', unit + '.rs')
    a = Assembler(unit)
    a.probe = probe
    a.degrade = degrade or {}
    a.run(tpl)
    if probe: unit = unit + '_probe'
    os.makedirs(outdir, exist_ok=True)
    out_rs = os.path.join(outdir, unit + '.rs')
    open(out_rs, 'w').write('\n'.join(a.out) + '\n')
    meta = {'unit': unit, 'assumed_fns': getattr(a, 'assumed', []), 'degraded_fns': getattr(a, 'degraded', []), 'gone_fns': getattr(a, 'gone', []), 'renamed_fns': getattr(a, 'renamed', []), 'functions': a.functions, 'items': a.items_used, 'rules': a.rule_counts,
            'obligations': a.obligations, 'fn_ranges': a.fn_ranges,
            'line_ob': {str(k + 1): m['ob'] for k, m in enumerate(a.map) if m['ob']},
            'line_origin': [m['origin'] for m in a.map]}
    json.dump(meta, open(os.path.join(outdir, unit + '.map.json'), 'w'))
    return out_rs, meta

if __name__ == '__main__':
    unit = sys.argv[1]
    outdir = sys.argv[2] if len(sys.argv) > 2 else os.path.join(os.path.dirname(SPECS), 'build', 'units')
    try:
        p, meta = assemble(unit, outdir)
        print(p, 'functions=%d obligations=%d rules=%s' % (len(meta['functions']), len(meta['obligations']), meta['rules']))
    except AnchorError as e:
        print('UNDECIDED anchor:', e); sys.exit(2)
