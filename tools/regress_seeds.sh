#!/bin/bash
# usage: tools/regress_seeds.sh [seed ids...]   applies every kept seeded change in turn, runs the check of the property it
# breaks, reverts; prints one line per seed.  Evidence files are restored from the unchanged tree at the end.
cd /verif
SEEDS=${@:-$(ls seeded)}
PROPS=""
for s in $SEEDS; do
  p=$(python3 -c "import json;print(json.load(open('seeded/$s/meta.json'))['breaks_property'])")
  git -C /repo apply --check /verif/seeded/$s/patch.diff 2>/dev/null || { echo "$s $p PATCH-DOES-NOT-APPLY"; continue; }
  git -C /repo apply /verif/seeded/$s/patch.diff
  out=$(./check $p 2>&1)
  git -C /repo checkout -- .
  v=$(echo "$out" | grep -c "^VIOLATION")
  how=$(echo "$out" | grep "^VIOLATION" | head -1 | sed -E 's/.*replay=\/verif\/replays\///' | cut -c1-90)
  if [ "$v" -gt 0 ]; then echo "$s $p CAUGHT $how"; else echo "$s $p MISSED $(echo "$out" | grep -E "UNDECIDED" | head -1 | cut -c1-200)"; fi
  PROPS="$PROPS $p"
done
for p in $(echo $PROPS | tr ' ' '\n' | sort -u); do ./check $p >/dev/null 2>&1; done
git -C /repo status --short | head -3
