"""Kani side (DESIGN sections 1, 6): harnesses on the REAL crate (MIR of the real functions) in a scratch copy of /repo
with harness modules appended under cfg(kani).  Results are cached by the hash of the scratch sources."""
import os, sys, json, hashlib, glob, re, time
ROOT = os.path.dirname(os.path.dirname(os.path.abspath(__file__)))
sys.path.insert(0, os.path.join(ROOT, 'kani'))
import inject

HARNESSES = {
    'store_delete': {'fn': 'memory_store/store.rs::impl Cache for MemoryStore::delete', 'complete': True, 'timeout': 600,
                     'what': 'MemoryStore::delete, for ALL u64 request CAS values and all stored meta data: absent -> NotFound; cas 0 or equal -> removed and returned; otherwise KeyExists and nothing changes; the other key untouched; exactly one map access; no map call under a live guard',
                     'bound': 'none in the quantified scalars (full-domain symbolic u64/u32; loop-free); keys and values are two fixed static byte strings over the array-backed dashmap stand-in'},
    'store_remove_if_concrete': {'fn': 'memory_store/store.rs::impl Cache for MemoryStore::remove_if', 'complete': False, 'timeout': 600,
                        'what': 'MemoryStore::remove_if makes no locking map call while an iteration guard is alive (dashmap deadlock condition), removes and returns the selected entries',
                        'bound': 'ONE concrete store content (two fixed records, predicate selecting both); the symbolic harness store_remove_if (<= 2 entries, symbolic predicate) did not finish in 900 s / 32 GB'},
}

def tree_hash():
    h = hashlib.sha256()
    repo = os.environ.get('VERIF_REPO', '/repo')
    for f in sorted(glob.glob(os.path.join(repo, 'memcrs/src/**/*.rs'), recursive=True)):
        h.update(f.encode()); h.update(open(f, 'rb').read())
    for f in sorted(glob.glob(os.path.join(ROOT, 'kani', '*'))):
        if os.path.isfile(f): h.update(open(f, 'rb').read())
    return h.hexdigest()[:24]

def run_harness(name, tier):
    spec = HARNESSES[name]
    cdir = os.path.join(os.environ.get('VERIF_BUILD') or os.path.join(ROOT, 'build'), 'cache')
    os.makedirs(cdir, exist_ok=True)
    cpath = os.path.join(cdir, 'kani.%s.%s.json' % (name, tree_hash()))
    if os.path.exists(cpath) and not os.environ.get('VERIF_NO_CACHE'):
        r = json.load(open(cpath)); r['cached'] = True; return r
    res = inject.run(name, spec['timeout'])
    out = res['out']
    r = {'cmd': res['cmd'] + '   (in a scratch copy of /repo with kani/harness_*.rs appended; CARGO_NET_OFFLINE=true)', 'wall': round(res['wall'], 1), 'fn': spec['fn'],
         'what': spec['what'], 'bound': spec['bound'], 'complete': spec['complete'], 'cached': False}
    m = re.search(r'SUMMARY:\s*\n\s*\*\*\s*(\d+) of (\d+) failed', out)
    if 'VERIFICATION:- SUCCESSFUL' in out:
        r['status'] = 'ok'
        mm = re.search(r'\*\* 0 of (\d+) failed', out)
        r['checks'] = int(mm.group(1)) if mm else None
        if re.search(r'\*\* (\d+) of (\d+) cover properties satisfied', out):
            a, b = re.search(r'\*\* (\d+) of (\d+) cover properties satisfied', out).groups()
            if a != b:
                r['status'] = 'undecided'; r['reason'] = 'vacuity guard: only %s of %s cover properties satisfied' % (a, b)
    elif 'VERIFICATION:- FAILED' in out:
        fails = re.findall(r'Failed Checks: (.*)', out)
        # unwinding assertion failures mean the bound was too small, not a violation
        real = [f for f in fails if 'unwinding assertion' not in f]
        if real:
            r['status'] = 'failed'; r['reason'] = '; '.join(real[:5]); r['output'] = out[-4000:]
        else:
            r['status'] = 'undecided'; r['reason'] = 'unwinding bound too small: ' + '; '.join(fails[:3])
    elif res['rc'] == 124:
        r['status'] = 'undecided'; r['reason'] = 'CBMC did not finish within %d s' % spec['timeout']
    else:
        r['status'] = 'undecided'; r['reason'] = 'kani did not produce a verdict: ' + out[-600:].replace('\n', ' ')
    json.dump(r, open(cpath, 'w'))
    return r
