"""Kani side (DESIGN §1, §6).  Placeholder until the harnesses are built."""
def run_harness(name, tier):
    return {'status': 'undecided', 'reason': 'harness not built', 'cmd': 'cargo kani --harness ' + name}
