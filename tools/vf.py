#!/usr/bin/env python3
"""Driver: ./check <property> [--tier quick|thorough] [--replay file] [--rebaseline]

exit 0  every obligation of the property discharged (or failing only as listed known findings)
exit 1  at least one previously-discharged obligation fails: prints  VIOLATION property=<id> replay=<path>[ no-failing-input-found]
exit 2  undecided (lost anchor, verifier front-end error, resource limit, obligation without baseline)
"""
import sys, os, json, time, subprocess, hashlib, re, shutil, glob

ROOT = os.path.dirname(os.path.dirname(os.path.abspath(__file__)))
sys.path.insert(0, os.path.join(ROOT, 'tools'))
import assemble as asm

BUILD = os.environ.get('VERIF_BUILD') or os.path.join(ROOT, 'build')
UNITS_OUT = os.path.join(BUILD, 'units')
CACHE = os.path.join(BUILD, 'cache')
EVID = os.path.join(ROOT, 'evidence')
REPLAYS = os.path.join(ROOT, 'replays')
CONF = json.load(open(os.path.join(ROOT, 'specs', 'properties.json')))
NCPU = os.cpu_count() or 4

SEMANTIC = (
    'postcondition not satisfied', 'precondition not satisfied', 'possible arithmetic underflow/overflow',
    'possible division by zero', 'invariant not satisfied', 'assertion failed', 'decreases not satisfied',
    'possible bit shift underflow/overflow', 'loop invariant', 'recommendation not met',
    'could not prove termination', 'unreachable', 'unable to prove', 'precondition not met', 'safe_api', 'may be out of range', 'cannot show',
)
RESOURCE = ('rlimit', 'resource limit', 'timed out', 'timeout', 'out of memory')
# ownership errors on the map field are C16 obligations (DESIGN §6 C16)
BORROW = ('E0499', 'E0502', 'E0506', 'E0505', 'E0503')

def sh(cmd, **kw):
    return subprocess.run(cmd, capture_output=True, text=True, **kw)

def verus_version():
    r = sh(['verus', '--version'])
    return ' '.join(r.stdout.split())

def run_verus(unit_rs, rlimit=None, seed=None):
    cmd = ['verus', unit_rs, '--output-json', '--time-expanded', '--multiple-errors', '100', '--error-format=json',
           '--num-threads', str(NCPU)]
    if rlimit: cmd += ['--rlimit', str(rlimit)]
    if seed is not None: cmd += ['--smt-option', 'smt.random_seed=%d' % seed]
    t0 = time.time()
    r = sh(cmd, cwd=os.path.dirname(unit_rs))
    wall = time.time() - t0
    out = None
    try:
        out = json.loads(r.stdout)
    except Exception:
        # stdout may have non-JSON prefix
        k = r.stdout.find('{')
        if k >= 0:
            try: out = json.loads(r.stdout[k:])
            except Exception: out = None
    diags = []
    for ln in r.stderr.split('\n'):
        ln = ln.strip()
        if ln.startswith('{'):
            try: diags.append(json.loads(ln))
            except Exception: pass
    return {'cmd': ' '.join(cmd), 'rc': r.returncode, 'json': out, 'diags': diags, 'stderr_tail': r.stderr[-3000:], 'wall': wall}

def classify(unit, meta, res):
    """Returns dict: failed = list of {ob, props, fn, msg, rendered, kind}, undecided = list of reasons, stats"""
    failed, undecided = [], []
    frontend = []    # (function the error lies in or None, message)
    line_ob = meta['line_ob']
    obl = meta['obligations']
    fn_ranges = meta['fn_ranges']
    def fn_at(line):
        best = None
        for (a, b, q, saf) in fn_ranges:
            if a <= line <= b and (best is None or (b - a) < (best[1] - best[0])):
                best = (a, b, q, saf)
        return best
    def ob_in(a, b):
        for ln in range(a, b + 1):
            o = line_ob.get(str(ln))
            if o: return o
        return None
    j = res['json']
    if j is None:
        undecided.append('verus produced no JSON (rc=%s): %s' % (res['rc'], res['stderr_tail'][-400:]))
        return {'failed': failed, 'undecided': undecided}
    for d in res['diags']:
        if d.get('level') != 'error': continue
        msg = d.get('message', '')
        if msg.startswith('aborting due to'): continue
        code = (d.get('code') or {}).get('code') if d.get('code') else None
        spans = d.get('spans', [])
        low = msg.lower()
        rendered = d.get('rendered', '')
        if any(x in low for x in RESOURCE):
            undecided.append('resource limit: ' + msg); continue
        if code in BORROW:
            # ownership error: a map call while a guard is alive.  Only conflicts on the map field itself count;
            # a conflict on `*self` (a helper method widened to &mut self by R4) is undecided, not a violation.
            sp = [s for s in spans if s.get('is_primary')] or spans
            f = fn_at(sp[0]['line_start']) if sp else None
            if not re.search(r'self\.(memory|store)\b', msg + ' ' + rendered):
                undecided.append('ownership conflict not on the map field (R4 artefact?): ' + msg); continue
            failed.append({'ob': 'ownership.%s' % (f[2].split('::')[-1] if f else '?'), 'props': ['C16'], 'fn': f[2] if f else None,
                           'msg': msg, 'rendered': rendered, 'kind': 'ownership'})
            continue
        if not any(x in low for x in SEMANTIC):
            undecided.append('front-end error: ' + msg + ' ' + (rendered.split('\n')[1] if '\n' in rendered else ''))
            sp = [s for s in spans if s.get('is_primary')] or spans
            f = fn_at(sp[0]['line_start']) if sp else None
            frontend.append((f[2] if f else None, msg))
            continue
        # semantic failure: find the clause span and the location span
        clause = None
        for s in spans:
            lab = (s.get('label') or '')
            if 'failed' in lab:
                clause = s
        prim = [s for s in spans if s.get('is_primary')]
        loc = prim[0] if prim else (spans[0] if spans else None)
        ob = None
        if clause is not None:
            ob = ob_in(clause['line_start'], clause['line_end'])
        if ob is None and loc is not None and ('postcondition' in low or 'invariant' in low or 'assertion' in low or 'decreases' in low):
            ob = ob_in(loc['line_start'], loc['line_end'])
        f = fn_at(loc['line_start']) if loc else None
        if f is None:
            # the failed clause may sit in a trait declaration of the template; the function it failed for is where
            # one of the other spans points ("at the end of the function body")
            for s2 in spans:
                f = fn_at(s2['line_start'])
                if f is not None: break
        if ob is not None:
            failed.append({'ob': ob, 'props': obl[ob]['props'], 'fn': obl[ob].get('fn') or (f[2] if f else None), 'msg': msg, 'rendered': rendered, 'kind': 'clause'})
        elif f is not None:
            short = f[2].split('::')[-1]
            what = 'safety'
            failed.append({'ob': '%s.%s' % (short, what), 'props': list(f[3]), 'fn': f[2], 'msg': msg, 'rendered': rendered, 'kind': 'safety'})
        else:
            undecided.append('failure outside any function under contract: ' + msg + ' @' + str(loc['line_start'] if loc else '?'))
    vr = j.get('verification-results', {})
    if vr.get('encountered-vir-error'):
        if not undecided: undecided.append('verus VIR error')
    if not vr.get('success') and not failed and not undecided:
        undecided.append('verus reported failure without a classifiable diagnostic: ' + res['stderr_tail'][-300:])
    return {'failed': failed, 'undecided': undecided, 'verified': vr.get('verified', 0), 'errors': vr.get('errors', 0), 'frontend': frontend}

def fn_times(res):
    out = {}
    j = res.get('json') or {}
    sm = (j.get('times-ms') or {}).get('smt') or {}
    for m in sm.get('smt-run-module-times', []) or []:
        for f in m.get('function-breakdown', []) or []:
            out[f['function']] = {'ms': f.get('time'), 'rlimit': f.get('rlimit')}
    return out

def scan_trusted(text):
    """mechanical scan for assumption constructs (DESIGN §4)"""
    keys = ['external_body', 'assume(', 'admit(', 'assume_specification', 'uninterp', 'external_fn_specification', '#[verifier::external]', 'exec_allows_no_decreases_clause']
    return {k: len(re.findall(re.escape(k), text)) for k in keys}

def verify_unit(unit, tier):
    """assemble + verus (+cache). Returns dict or raises asm.AnchorError"""
    # fresh assembler state for each unit (file cache is per process and /repo does not change within a run)
    out_rs, meta = asm.assemble(unit, UNITS_OUT)
    text = open(out_rs).read()
    # assumption scan restricted to extracted function bodies must be zero
    extracted_trust = 0
    lines = text.split('\n')
    for (a, b, q, saf) in meta['fn_ranges']:
        if '::' in q and not q.split('::')[1].startswith(('impl ', 'fn ')) or True:
            pass
    h = hashlib.sha256((text + verus_version() + tier + 'logic-v3').encode()).hexdigest()[:24]
    os.makedirs(CACHE, exist_ok=True)
    cpath = os.path.join(CACHE, unit + '.' + h + '.json')
    if os.path.exists(cpath) and not os.environ.get('VERIF_NO_CACHE'):
        r = json.load(open(cpath))
        r['cached'] = True
        r['meta'] = r.get('meta_degraded') or meta
        return r
    res = run_verus(out_rs)
    cl = classify(unit, meta, res)
    # Front-end errors that all lie inside extracted functions (an annotation that names a renamed local, a construct
    # outside the subset introduced by a change): those functions are degraded to signature + contract for this run
    # and the rest of the unit is verified; only the properties their obligations carry become undecided.
    fe = cl.get('frontend') or []
    assumed_now = set(a['fn'] for a in meta.get('assumed_fns', []))
    if fe and all(q is not None and q not in assumed_now for (q, m) in fe):
        deg = {}
        for (q, m) in fe: deg.setdefault(q, 'verifier front-end error: ' + m[:160])
        try:
            out2, meta2 = asm.assemble(unit, UNITS_OUT, degrade=deg)
            res2 = run_verus(out2)
            cl2 = classify(unit, meta2, res2)
            if not cl2.get('frontend'):
                out_rs, meta, res, cl = out2, meta2, res2, cl2
                text = open(out_rs).read()
        except asm.AnchorError:
            pass
    # resource-limit retry (DESIGN §7): doubled rlimit, other seed
    if any(u.startswith('resource limit') for u in cl['undecided']):
        res2 = run_verus(out_rs, rlimit=20, seed=7)
        cl2 = classify(unit, meta, res2)
        if not any(u.startswith('resource limit') for u in cl2['undecided']):
            res, cl = res2, cl2
    stability = None
    if tier == 'thorough' and not cl['undecided']:
        # proof stability: a second run with another Z3 seed and a doubled resource limit must give the same verdict
        res2 = run_verus(out_rs, rlimit=20, seed=12345)
        cl2 = classify(unit, meta, res2)
        same = sorted(set(f['ob'] for f in cl['failed'])) == sorted(set(f['ob'] for f in cl2['failed'])) and not cl2['undecided']
        stability = {'second_seed_same_verdict': same, 'wall': round(res2['wall'], 1)}
    r = {'unit': unit, 'cmd': res['cmd'], 'wall': res['wall'], 'classified': cl, 'fn_times': fn_times(res),
         'trusted_scan': scan_trusted(text), 'sha': h, 'cached': False, 'stability': stability,
         'smt_ms': ((res.get('json') or {}).get('times-ms') or {}).get('smt', {}).get('total'),
         'total_ms': ((res.get('json') or {}).get('times-ms') or {}).get('total')}
    r['meta_degraded'] = meta if meta.get('degraded_fns') else None
    json.dump(r, open(cpath, 'w'))
    r['meta'] = meta
    return r

def callers_cone(out_rs, meta, target):
    """functions of the assembled unit that call `target` directly or through other extracted functions (by short name:
    an over-approximation, which only makes more properties undecided)"""
    try:
        lines = open(out_rs).read().split('\n')
    except Exception:
        return set()
    short = lambda q: q.split('::')[-1]
    bodies = {}
    for (a, b, q, saf) in meta['fn_ranges']:
        bodies[q] = '\n'.join(lines[a - 1:b])
    names = set(short(q) for q in bodies)
    calls = {q: set(n for n in names if re.search(r'\b' + re.escape(n) + r'\s*\(', txt.split('{', 1)[1] if '{' in txt else '')) for q, txt in bodies.items()}
    cone, frontier = set(), {short(target)}
    while frontier:
        nxt = set()
        for q, cs in calls.items():
            if q not in cone and q != target and cs & frontier:
                cone.add(q); nxt.add(short(q))
        frontier = nxt
    return cone

def load_known():
    p = os.path.join(ROOT, 'known_findings.json')
    if os.path.exists(p):
        return json.load(open(p))
    return {'open': [], 'fixed': []}

def load_baseline():
    p = os.path.join(ROOT, 'specs', 'baseline_obligations.json')
    if os.path.exists(p): return json.load(open(p))
    return {}

def load_fn_baseline():
    p = os.path.join(ROOT, 'specs', 'baseline_functions.json')
    if os.path.exists(p): return json.load(open(p))
    return {}

def write_evidence(pid, ev):
    os.makedirs(EVID, exist_ok=True)
    json.dump(ev, open(os.path.join(EVID, pid + '.json'), 'w'), indent=1)

def main():
    args = sys.argv[1:]
    if not args:
        print(__doc__); sys.exit(2)
    pid = args[0]
    tier = os.environ.get('VERIF_TIER', 'quick')
    if '--tier' in args: tier = args[args.index('--tier') + 1]
    seed = int(os.environ.get('VERIF_SEED', '0') or 0)
    if '--replay' in args:
        import replaytool
        sys.exit(replaytool.replay(args[args.index('--replay') + 1]))
    rebaseline = '--rebaseline' in args
    if pid == 'all':
        rc = 0
        for p in CONF['properties']:
            r = subprocess.run([sys.executable, os.path.abspath(__file__), p] + args[1:])
            rc = max(rc, r.returncode)
        sys.exit(rc)
    if pid not in CONF['properties']:
        print('unknown or unclaimed property', pid); sys.exit(2)
    pc = CONF['properties'][pid]
    t0 = time.time()
    known = load_known()
    baseline = load_baseline()
    undecided, failed_all = [], []
    units_ev, functions_ev, lemmas_ev, samples = [], [], [], []
    n_obl = n_dis = 0
    cmds = []
    trusted = set(pc.get('trusted_base', []))
    solver_ms = 0
    obligations_seen = {}
    fn_meta = {}
    for unit in pc['units']:
        try:
            r = verify_unit(unit, tier)
        except asm.AnchorError as e:
            undecided.append('unit %s: lost anchor: %s' % (unit, e)); continue
        except Exception as e:
            undecided.append('unit %s: tooling error: %r' % (unit, e)); continue
        meta, cl = r['meta'], r['classified']
        cmds.append(r['cmd'])
        solver_ms += r.get('smt_ms') or 0
        for u in cl['undecided']:
            undecided.append('unit %s: %s' % (unit, u))
        failed_obs = {}
        for f in cl['failed']:
            failed_obs.setdefault(f['ob'], []).append(f)
        for d in meta.get('degraded_fns', []):
            props = set(d.get('safety', []))
            for oid, pr in d.get('obligations', {}).items(): props |= set(pr)
            # ... and every property carried by a function that (transitively) calls the degraded one: their proofs
            # rest on its contract, which is an assumption in this run
            cone = callers_cone(r.get('out_rs') or os.path.join(UNITS_OUT, unit + '.rs'), meta, d['fn'])
            for q in cone:
                for (a, b, q2, saf) in meta['fn_ranges']:
                    if q2 == q: props |= set(saf)
                for oid, o in meta['obligations'].items():
                    if o.get('fn') == q: props |= set(o['props'])
            if pid in props:
                mine = sorted(oid for oid, pr in d.get('obligations', {}).items() if pid in pr)
                undecided.append('unit %s: lost anchor: %s could not be kept under contract after the change (%s); undecided obligations: %s' % (unit, d['fn'].split('::')[-1], d['reason'][:300], ', '.join(mine) or 'safety'))
            trusted.add('DEGRADED in this run (body not verified): %s [%s]' % (d['fn'], d['reason'][:120]))
        for g in meta.get('gone_fns', []):
            trusted.add('GONE: %s no longer exists in /repo; its obligations (%s) are void, its former callers are verified against the code that replaced the call' % (g['fn'], ', '.join(g['void_obligations'])))
        for g in meta.get('renamed_fns', []):
            trusted.add('RENAMED: the contract of %s was applied to %s (same body as in the baseline)' % (g['fn'], g['now']))
        # obligations that carry the pseudo-property ALL (the meaning of a construct other contracts rely on): a failure
        # makes the property undecided, never violated
        for oid, o in meta['obligations'].items():
            if 'ALL' in o['props'] and oid in failed_obs:
                undecided.append('unit %s: lost anchor: %s no longer holds (%s): contracts that rely on it have lost their meaning' % (unit, oid, failed_obs[oid][0]['msg'][:120]))
        for (a, b, q, saf) in meta['fn_ranges']:
            oid = q.split('::')[-1] + '.safety'
            if 'ALL' in saf and oid in failed_obs:
                undecided.append('unit %s: lost anchor: %s of %s no longer holds: contracts that rely on it have lost their meaning' % (unit, oid, q))
        # tagged obligations of this property
        for oid, o in meta['obligations'].items():
            if pid not in o['props']: continue
            full = unit + '/' + oid
            obligations_seen[full] = {'text': ' '.join(o['text'])[:400], 'fn': o.get('fn'), 'kind': o.get('kind')}
            n_obl += 1
            if oid in failed_obs:
                for f in failed_obs[oid][:1]:
                    failed_all.append(dict(f, unit=unit, full=full))
            else:
                n_dis += 1
        # safety obligations: one per function under contract charged to this property
        for (a, b, q, saf) in meta['fn_ranges']:
            if pid not in saf: continue
            short = q.split('::')[-1]
            oid = short + '.safety'
            full = unit + '/' + oid
            obligations_seen[full] = {'text': 'no arithmetic overflow/underflow, no out-of-range access, every callee precondition (the real panics) holds, loops terminate where a decreases clause is given', 'fn': q, 'kind': 'safety'}
            n_obl += 1
            if oid in failed_obs:
                failed_all.append(dict(failed_obs[oid][0], unit=unit, full=full))
            else:
                n_dis += 1
        # C16: "no map call while a guard is alive" is an ownership obligation per function that touches the map:
        # discharged by the borrow checker on the unit (guards borrow the map; exclusive calls need &mut)
        own = pc.get('ownership', {}).get(unit, [])
        own_failed = {}
        for oid, fl in failed_obs.items():
            if fl[0]['kind'] == 'ownership':
                own_failed[oid.split('.', 1)[1]] = fl[0]
        for fname in own:
            oid = '%s.no_call_under_guard' % fname
            full = unit + '/' + oid
            obligations_seen[full] = {'text': 'no dashmap call is made while a guard returned by the map is alive (dashmap documents this as a deadlock); checked as an ownership obligation on the stand-in', 'fn': fname, 'kind': 'ownership'}
            n_obl += 1
            if fname in own_failed:
                failed_all.append(dict(own_failed[fname], ob=oid, unit=unit, full=full, kind='ownership'))
            else:
                n_dis += 1
        for fname, f in own_failed.items():
            if fname not in own and pid == 'C16':
                n_obl += 1
                failed_all.append(dict(f, unit=unit, full=unit + '/' + f['ob'], kind='ownership'))
        for fm in meta['functions']:
            fn_meta[fm['fn']] = fm
        ft = r['fn_times']
        assumed = {a['fn']: a['checked_by'] for a in meta.get('assumed_fns', [])}
        for a in meta.get('assumed_fns', []):
            trusted.add('ASSUMED contract (body not verified by Verus): %s [%s]' % (a['fn'], a['checked_by']))
        for f in meta['functions']:
            short = f['fn'].split('::')[-1]
            if f['fn'] in assumed:
                functions_ev.append({'fn': f['fn'], 'lines': f['lines'], 'sha256': f['sha256'], 'rules': f['rules'], 'verifier': 'none: contract ASSUMED in Verus (%s)' % assumed[f['fn']], 'unit': unit})
                continue
            tm = None
            for k, v in ft.items():
                if k.endswith('::' + short): tm = v
            functions_ev.append({'fn': f['fn'], 'lines': f['lines'], 'sha256': f['sha256'], 'rules': f['rules'],
                                 'verifier': 'verus', 'solver_ms': (tm or {}).get('ms'), 'rlimit': (tm or {}).get('rlimit'), 'unit': unit})
        units_ev.append({'unit': unit, 'verified_fns': cl.get('verified'), 'errors': cl.get('errors'), 'wall_s': round(r['wall'], 2), 'cached': r['cached'],
                         'rules': meta['rules'], 'trusted_scan': r['trusted_scan'], 'stability': r.get('stability')})
    # Kani side
    bounded = []
    for hname in pc.get('kani', []):
        import kanitool
        kr = kanitool.run_harness(hname, tier)
        cmds.append(kr['cmd'])
        if kr['status'] == 'undecided':
            undecided.append('kani %s: %s' % (hname, kr['reason']))
        ent = {'harness': hname, 'status': kr['status'], 'bound': kr.get('bound'), 'checks': kr.get('checks'), 'wall_s': kr.get('wall'), 'complete': kr.get('complete', False)}
        full = 'kani/' + hname
        if kr.get('complete'):
            n_obl += 1
            obligations_seen[full] = {'text': kr.get('what', ''), 'fn': kr.get('fn'), 'kind': 'kani-complete'}
            if kr['status'] == 'ok': n_dis += 1
        else:
            bounded.append(ent)
            obligations_seen['kani/' + hname] = {'text': '(bounded, not counted as proved) ' + kr.get('what', ''), 'fn': kr.get('fn'), 'kind': 'kani-bounded'}
        if kr['status'] == 'failed':
            failed_all.append({'ob': hname, 'props': [pid], 'fn': kr.get('fn'), 'msg': kr.get('reason', ''), 'rendered': kr.get('output', '')[-3000:], 'kind': 'kani', 'unit': 'kani', 'full': full, 'witness': kr.get('witness')})
        lemmas_ev.append(ent)
    # Bounded stand-ins for functions that cannot be brought within the verifier's reach (labelled bounded, never
    # counted as proved): run-time scenarios against the real code; a failing scenario is a concrete failing input.
    for tname in pc.get('bounded_twins', []):
        try:
            import replaytool, witness
            ok, err = replaytool.build_replay_bin()
            if not ok:
                undecided.append('bounded twin %s: replay crate does not build against the current tree: %s' % (tname, err[-300:]))
                continue
            info = witness.BOUNDED_TWINS[tname]
            t1 = time.time()
            w = info['gen'](pid, {'full': 'twin/' + tname, 'fn': info['fn'], 'kind': 'twin'})
            ent = {'harness': 'twin/' + tname, 'status': 'failed' if w else 'ok', 'bound': info['bound'], 'wall_s': round(time.time() - t1, 2), 'complete': False, 'stands_in_for': info['fn']}
            bounded.append(ent)
            cmds.append('build/replay-target/debug/replay (scenarios of tools/witness.py:%s)' % info['gen'].__name__)
            obligations_seen['twin/' + tname] = {'text': '(bounded, not counted as proved) ' + info['what'], 'fn': info['fn'], 'kind': 'twin-bounded'}
            if w:
                failed_all.append({'ob': tname, 'props': [pid], 'fn': info['fn'], 'msg': w.get('what', ''), 'rendered': json.dumps(witness.run_witness(w))[:3000], 'kind': 'twin', 'unit': 'twin', 'full': 'twin/' + tname, 'witness': w})
        except Exception as e:
            undecided.append('bounded twin %s failed to run: %r' % (tname, e))
    # classify failures: known finding / violation / undecided(no baseline)
    violations, known_hits, no_base = [], [], []
    open_k = {(k['property'], k['obligation']): k for k in known.get('open', [])}
    seen_full = set()
    for f in failed_all:
        if f['full'] in seen_full: continue
        seen_full.add(f['full'])
        key = (pid, f['full'])
        if key in open_k:
            known_hits.append((f, open_k[key]))
        elif rebaseline or baseline.get(pid, {}).get(f['full']) or f['kind'] in ('ownership', 'twin'):
            violations.append(f)
        else:
            no_base.append(f)
    for f in no_base:
        undecided.append('obligation %s fails but has never been discharged on the unchanged tree (no baseline): %s' % (f['full'], f['msg']))
    # A failed proof is not yet a violation where the proof rests on hand-written loop invariants / proof hints and
    # the function's text has changed (or its annotations had to be re-bound to renamed locals): such a failure may
    # only mean that the invariant no longer fits the new shape of the code.  It is reported as a violation only with
    # a concrete failing input on the real code; otherwise it is UNDECIDED (and the twin fallback below gets its turn).
    fn_base = load_fn_baseline()
    for f in list(violations):
        fm = fn_meta.get(f.get('fn') or '')
        if not fm or f.get('kind') not in ('clause', 'safety'): continue
        fb0 = fn_base.get(fm['fn'])
        changed = (fb0.get('sha') if isinstance(fb0, dict) else fb0) not in (None, fm['sha256'])
        # ... or the change introduced closures / iterator-style adapters, which Verus only understands with annotations
        # the template cannot have: the proof may fail for that reason alone
        newc = isinstance(fb0, dict) and changed and (fm.get('n_closures', 0) > (fb0.get('closures') or 0) or fm.get('n_adapters', 0) > (fb0.get('adapters') or 0))
        if fm.get('rebound') or (fm.get('annotated_body') and changed) or newc:
            if not f.get('witness'):
                try:
                    import replaytool, witness
                    ok, err = replaytool.build_replay_bin()
                    if ok: f['witness'] = witness.search(pid, f)
                except Exception:
                    pass
            if not f.get('witness'):
                violations.remove(f)
                undecided.append('lost anchor: the proof of %s no longer goes through after a change inside %s, whose proof rests on hand-written loop invariants / hints%s%s; no failing input was found, so it is not reported as a violation' % (f['full'], fm['fn'].split('::')[-1], ' (annotations re-bound to renamed locals)' if fm.get('rebound') else '', ' or which now uses closures / adapters the verifier has no specification for' if newc else ''))
    wall = time.time() - t0
    rc = 0
    for (f, k) in known_hits:
        print('KNOWN-FINDING: property=%s %s %s' % (pid, f['full'], k.get('what', '')))
    # findings that no contract within reach expresses (replay-only): listed while their replay still reproduces
    replay_only = []
    for k in known.get('open', []):
        if k['property'] == pid and not k.get('obligation'):
            try:
                import replaytool, witness
                ok, err = replaytool.build_replay_bin()
                doc = json.load(open(k['replay']))
                res = witness.run_witness(doc['witness']) if ok else {'violates': True}
                if res['violates']:
                    print('KNOWN-FINDING: property=%s replay-only %s' % (pid, k.get('what', '')))
                    replay_only.append(k)
            except Exception as e:
                undecided.append('replay-only finding could not be replayed: %r' % e)
    if violations:
        import replaytool
        os.makedirs(REPLAYS, exist_ok=True)
        for f in violations:
            path, found = replaytool.make_replay(pid, f, REPLAYS)
            print('VIOLATION property=%s replay=%s%s' % (pid, path, '' if found else ' no-failing-input-found'))
        rc = 1
    elif undecided:
        for u in undecided:
            print('UNDECIDED property=%s reason=%s' % (pid, u.replace('\n', ' ')[:600]))
        rc = 2
        # The verifier could not decide (lost anchor, construct outside the subset, ...).  Before giving up, the
        # run-time twins of the property statements are run against the real code: a concrete failing input on the
        # real code is a violation whatever the verifier's state; finding none leaves the result UNDECIDED.
        structural = [u for u in undecided if ('lost anchor' in u or 'front-end error' in u or 'tooling error' in u or 'did not produce a verdict' in u or 'resource limit' in u)]
        if structural and not os.environ.get('VERIF_NO_TWIN_FALLBACK'):
            try:
                import replaytool, witness
                ok, err = replaytool.build_replay_bin()
                w = None
                if ok:
                    fake = {'full': 'undecided', 'fn': None, 'kind': 'undecided'}
                    if pid in ('C01', 'C02', 'C05', 'C06', 'C07', 'C08', 'C10', 'C11', 'C12', 'C13', 'C19'):
                        w = witness.gen_refmodel(pid, fake)
                    if w is None and pid in ('C05',):
                        w = witness.gen_clock(pid, fake)
                    if w is None and pid in ('C05', 'C08'):
                        w = witness.gen_sock_timed(pid, fake)
                    if w is None and pid in ('C19', 'C01', 'C02', 'C06', 'C07'):
                        w = witness.gen_sock(pid, fake)      # the same commands through the real TCP server (features wired in only there)
                    if w is None and pid in ('C03', 'C04'):
                        w = witness.gen_conc_store(pid, fake) or (witness.gen_steps_lin(pid, fake) if pid == 'C03' else None)
                    if w is None and pid in ('C09', 'C10', 'C12', 'C13', 'C18'):
                        w = witness.gen_framing(pid, fake) or witness.gen_sock(pid, fake)
                    if w is None and pid in ('C18', 'C12', 'C09'):
                        w = witness.gen_sock_faults(pid, fake)
                    if w is None and pid in ('C18', 'C13'):
                        w = witness.gen_sock_timeouts(pid, fake)
                    if w is None and pid in ('C11', 'C12', 'C10'):
                        w = witness.gen_sock_correlation(pid, fake)
                    if w is None and pid in ('C15', 'C14'):
                        w = witness.gen_policy(pid, fake)
                    if w is None and pid in ('C16',):
                        w = witness.gen_hang(pid, fake)
                if w is not None:
                    os.makedirs(REPLAYS, exist_ok=True)
                    path = os.path.join(REPLAYS, '%s-undecided-twin.json' % pid)
                    json.dump({'property': pid, 'obligation': 'none: the verifier could not decide (%s)' % structural[0][:300],
                               'decided_by': 'run-time twin of the property statement on the real code (a concrete failing input), after the verifier returned UNDECIDED',
                               'verifier_message': structural[0], 'witness': w}, open(path, 'w'), indent=1)
                    print('VIOLATION property=%s replay=%s' % (pid, path))
                    violations.append({'full': 'undecided-twin'})
                    rc = 1
            except Exception as e:
                print('UNDECIDED property=%s reason=twin fallback failed: %r' % (pid, e))
    if rebaseline and rc == 0:
        b = load_baseline()
        failed_set = set(f['full'] for f in failed_all)
        b[pid] = {k: True for k in obligations_seen if k not in failed_set}
        json.dump(b, open(os.path.join(ROOT, 'specs', 'baseline_obligations.json'), 'w'), indent=1, sort_keys=True)
        fb = load_fn_baseline()
        for q, fm in fn_meta.items(): fb[q] = {'sha': fm['sha256'], 'body': fm.get('body_sha'), 'closures': fm.get('n_closures', 0), 'adapters': fm.get('n_adapters', 0)}
        json.dump(fb, open(os.path.join(ROOT, 'specs', 'baseline_functions.json'), 'w'), indent=1, sort_keys=True)
    # ---- thorough tier: things that can only lower confidence in the evidence, never raise an alarm ----
    thorough = {}
    thorough_found = []      # (name, witness): concrete failing inputs found by the thorough tier's exploration
    if tier == 'thorough':
        # (a) seeded-fault self-test restricted to this property's catalogue entries
        try:
            import selftest
            mine = [m['name'] for m in selftest.CAT if m.get('property') == pid]
            if mine:
                res = selftest.run(mine)
                thorough['selftest'] = {'caught': len([r for r in res if r['status'] == 'caught']), 'total': len(res),
                                        'details': [{'name': r['name'], 'status': r['status'], 'failed': r.get('failed', [])[:4]} for r in res]}
        except Exception as e:
            thorough['selftest_error'] = repr(e)
        # (b) run-time twin of the property statements against the unchanged real code (consistency of the
        #     specification vocabulary with the code; DESIGN section 7)
        if pid in ('C01', 'C02', 'C05', 'C06', 'C07', 'C08', 'C11', 'C12', 'C13', 'C19'):
            try:
                import replaytool, refmodel
                ok, err = replaytool.build_replay_bin()
                if ok:
                    w, nh = refmodel.search(seed, 400)
                    thorough['twin'] = {'histories': nh, 'mismatch': (w or {}).get('why')}
                    if w:
                        thorough_found.append(('reference-model', {'kind': 'recorded-session', 'lines': w.get('lines'), 'what': w['why'], 'observed': w.get('observed'), 'required': 'every step of the history agrees with the reference model of the property statements (tools/refmodel.py)'}))
                        thorough['twin']['witness_lines'] = w.get('lines')
            except Exception as e:
                thorough['twin_error'] = repr(e)
        if pid == 'C03':
            try:
                import witness
                w = witness.gen_steps_lin(pid, {'full': 'conc'})
                thorough['step_level_schedules'] = {'bounded': 'two threads, get/set/delete/flush on one key, thread 1 parked before each of its Cache-layer / clock calls', 'schedules': witness.gen_steps_lin.last_count, 'mismatch': (w or {}).get('what')}
                if w: thorough_found.append(('step-level-schedules', w))
            except Exception as e:
                thorough['step_level_schedules_error'] = repr(e)
        if pid in ('C05', 'C08'):
            try:
                import replaytool, witness
                ok, err = replaytool.build_replay_bin()
                if ok:
                    w = witness.gen_sock_timed(pid, {'full': 'server/flush'})
                    thorough['socket_timed_pipelines'] = {'bounded': 'four phased pipelines over TCP with the server clock advanced between phases (delayed flush + later store, quiet variant, identical re-store, immediate flush)', 'pipelines': witness.gen_sock_timed.last_count, 'mismatch': (w or {}).get('what')}
                    if w: thorough_found.append(('timed-socket-pipelines', w))
            except Exception as e:
                thorough['socket_timed_error'] = repr(e)
        if pid == 'C11':
            try:
                import replaytool, witness
                ok, err = replaytool.build_replay_bin()
                if ok:
                    w = witness.gen_sock_correlation(pid, {'full': 'server/conn'})
                    thorough['socket_correlation'] = {'bounded': 'three valid requests followed by a request malformed in one of six ways, in one segment / in its own segment; oracle independent of the code: whole response frames, each correlated with a request sent, in order', 'scenarios': witness.gen_sock_correlation.last_count, 'mismatch': (w or {}).get('what')}
                    if w: thorough_found.append(('socket-correlation', w))
            except Exception as e:
                thorough['socket_correlation_error'] = repr(e)
        if pid == 'C18':
            try:
                import replaytool, witness
                ok, err = replaytool.build_replay_bin()
                if ok:
                    w = witness.gen_sock_faults(pid, {'full': 'server/client'})
                    thorough['socket_faults'] = {'bounded': 'stream of 4 requests cut at frame boundaries +-1 / inside headers, corrupted magic after 1-3 complete requests, ten faulted connections in a row; a second connection observes', 'scenarios': witness.gen_sock_faults.last_count, 'mismatch': (w or {}).get('what')}
                    if w: thorough_found.append(('socket-faults', w))
                    w3 = witness.gen_sock_timeouts(pid, {'full': 'server/client'})
                    thorough['socket_idle_timeouts'] = {'bounded': 'receive timeout 1 s; the client goes silent inside a header / a body / an oversized body / between requests; the connection must be closed 2.6 s later', 'scenarios': witness.gen_sock_timeouts.last_count, 'mismatch': (w3 or {}).get('what')}
                    if w3: thorough_found.append(('socket-idle-timeouts', w3))
            except Exception as e:
                thorough['socket_faults_error'] = repr(e)
        if pid == 'C05':
            try:
                import replaytool, witness
                ok, err = replaytool.build_replay_bin()
                if ok:
                    w = witness.gen_clock(pid, {'full': 'server/timer'})
                    thorough['clock_twin'] = {'bounded': 'ticks 1 .. 2^23 of the real SystemTimer', 'mismatch': (w or {}).get('what')}
                    if w: thorough_found.append(('clock', w))
            except Exception as e:
                thorough['clock_twin_error'] = repr(e)
        if pid in ('C09', 'C10', 'C12', 'C13'):
            try:
                import replaytool, witness
                ok, err = replaytool.build_replay_bin()
                if ok:
                    w = witness.gen_framing(pid, {'full': 'codec_dec/decode'})
                    thorough['framing_grid'] = {'frames': 37 * 4 * 3 * 3, 'mismatch': (w or {}).get('what')}
                    if w: thorough_found.append(('framing-grid', w))
                    # the same pipelines through the REAL MemcacheTcpServer over loopback TCP, in several segmentations,
                    # against the socket-less request path (catches what no contract expresses: a frame read but never
                    # handed to the handler, responses held back, ...)
                    w2 = witness.gen_sock(pid, {'full': 'server/read_frame'})
                    thorough['socket_pipelines'] = {'pipelines': len(witness.sock_pipelines()), 'mismatch': (w2 or {}).get('what', None) and w2['what'][:300]}
                    if w2: thorough_found.append(('socket-pipelines', w2))
            except Exception as e:
                thorough['framing_grid_error'] = repr(e)
        # what the thorough exploration FOUND is a concrete failing input on the real code (each twin re-runs a failing
        # scenario before it reports it): a violation of the property on something explored, with its replay file
        for (name, w) in thorough_found:
            os.makedirs(REPLAYS, exist_ok=True)
            path = os.path.join(REPLAYS, '%s-thorough-%s.json' % (pid, name))
            json.dump({'property': pid, 'obligation': 'none: found by the thorough tier (%s) although every obligation is discharged or known' % name,
                       'decided_by': 'run-time twin of the property statement on the real code (a concrete failing input)', 'witness': w}, open(path, 'w'), indent=1)
            print('VIOLATION property=%s replay=%s' % (pid, path))
            violations.append({'full': 'thorough-twin/' + name})
            thorough.setdefault('found', []).append({'by': name, 'what': (w.get('what') or '')[:300], 'replay': path})
            rc = 1
        if undecided and rc == 0:
            for u in undecided:
                print('UNDECIDED property=%s reason=%s' % (pid, u.replace('\n', ' ')[:600]))
            rc = 2
    if tier == 'thorough':
        # (c) vacuity probes: every extracted function gets the extra postcondition `false`, which must FAIL
        try:
            vac = []
            total = 0
            for unit in pc['units']:
                out_rs, meta = asm.assemble(unit, UNITS_OUT, probe=True)
                res = run_verus(out_rs)
                cl = classify(unit, meta, res)
                failed_probe = set(f['ob'] for f in cl['failed'])
                for oid, o in meta['obligations'].items():
                    if o['props'] == ['PROBE']:
                        total += 1
                        if oid not in failed_probe: vac.append(unit + '/' + oid)
            thorough['vacuity_probes'] = {'probes': total, 'failed_as_required': total - len(vac), 'vacuous': vac}
            if vac:
                undecided.append('vacuity probe verified (contradictory assumptions?): ' + ', '.join(vac[:5]))
                if rc == 0:
                    print('UNDECIDED property=%s reason=vacuity probe verified: %s' % (pid, ', '.join(vac[:5]))); rc = 2
        except Exception as e:
            thorough['vacuity_probes_error'] = repr(e)
    # vacuity guard
    if n_obl == 0:
        print('UNDECIDED property=%s reason=zero obligations generated' % pid); rc = max(rc, 2)
    # evidence
    level = pc.get('level', 'proof')
    if level == 'proof' and (known_hits or replay_only or n_dis != n_obl):
        level = 'other'
    keys = sorted(obligations_seen.keys())
    k0 = seed % max(1, len(keys))
    for k in (keys[k0:] + keys[:k0])[:6]:
        samples.append({'obligation': k, 'clause': obligations_seen[k]['text'], 'function': obligations_seen[k]['fn'], 'kind': obligations_seen[k]['kind']})
    ev = {
        'property_id': pid, 'tier': tier, 'seed': seed, 'level': level,
        'coverage': {
            'obligations': n_obl, 'discharged': n_dis,
            'checker_cmd': ' ; '.join(cmds) if cmds else 'none',
            'trusted_base': sorted(trusted | set(CONF.get('trusted_base_common', []))),
            'explanation': pc.get('explanation', ''),
            'functions_under_contract': functions_ev,
            'units': units_ev,
            'bounded_checks': bounded,
            'kani': lemmas_ev,
            'known_findings': [{'obligation': f['full'], 'what': k.get('what'), 'replay': k.get('replay')} for (f, k) in known_hits] + [{'obligation': None, 'what': k.get('what'), 'replay': k.get('replay')} for k in replay_only],
            'undecided': undecided,
            'samples': samples,
            'solver_time_ms': solver_ms,
            'thorough': thorough,
            'standin_selfcheck': (open(os.path.join(BUILD, 'standins_selfcheck.txt')).read().strip() if os.path.exists(os.path.join(BUILD, 'standins_selfcheck.txt')) else 'not run (setup.sh runs it)'),
            'extraction_rules': 'R1 log macros deleted; R2 format! in io::Error -> ""; R3 async/.await dropped; R4 &self->&mut self and Arc<dyn>/Atomic field stand-ins; R5 derives cut (R5b: Structural on field-less enums); R6 static->const; R7 use lines replaced; R9 cfg(test) dropped; R11 visibility widened to pub; see DESIGN §3',
        },
        'assumptions': pc.get('assumptions', []) + CONF.get('assumptions_common', []),
        'wall_s': round(wall, 2),
        'violations': len(violations),
    }
    write_evidence(pid, ev)
    print('%s: obligations=%d discharged=%d violations=%d known=%d undecided=%d wall=%.1fs' % (pid, n_obl, n_dis, len(violations), len(known_hits), len(undecided), wall))
    sys.exit(rc)

if __name__ == '__main__':
    main()
