"""Coarse Rust item splitter (no real parser): good enough to cut files of /repo into items.

It understands line/block comments, string / raw-string / char literals, lifetimes, and
brace/paren/bracket nesting.  An *item* is: leading attributes and doc comments, then text up to
the matching `}` of the first top-level `{`, or to the first top-level `;`, whichever comes first.
Items of `impl` / `trait` / `mod` blocks are split recursively on demand.
"""
import re

class ParseError(Exception):
    pass

def mask(src):
    """Return a same-length string in which comments, strings and chars are blanked with spaces
    (newlines kept) so brace matching and regexes can run on it."""
    out = list(src)
    i, n = 0, len(src)
    def blank(a, b):
        for k in range(a, b):
            if out[k] != '\n':
                out[k] = ' '
    while i < n:
        c = src[i]
        if src.startswith('//', i):
            j = src.find('\n', i)
            j = n if j < 0 else j
            blank(i, j); i = j
        elif src.startswith('/*', i):
            depth, j = 1, i + 2
            while j < n and depth:
                if src.startswith('/*', j): depth += 1; j += 2
                elif src.startswith('*/', j): depth -= 1; j += 2
                else: j += 1
            blank(i, j); i = j
        elif c == '"':
            j = i + 1
            while j < n and src[j] != '"':
                j += 2 if src[j] == '\\' else 1
            blank(i + 1, j); i = j + 1
        elif c == 'r' and re.match(r'r#*"', src[i:]) and (i == 0 or not (src[i-1].isalnum() or src[i-1] == '_')):
            m = re.match(r'r(#*)"', src[i:])
            close = '"' + m.group(1)
            j = src.find(close, i + len(m.group(0)))
            if j < 0: raise ParseError('unterminated raw string')
            blank(i + len(m.group(0)), j); i = j + len(close)
        elif c == 'b' and i + 1 < n and src[i+1] == "'" :
            m = re.match(r"b'(\\.[^']*|[^'\\])'", src[i:])
            if m:
                blank(i + 2, i + len(m.group(0)) - 1); i += len(m.group(0))
            else:
                i += 1
        elif c == "'":
            m = re.match(r"'(\\.[^']*|[^'\\])'", src[i:])
            if m:
                blank(i + 1, i + len(m.group(0)) - 1); i += len(m.group(0))
            else:
                i += 1  # lifetime
        else:
            i += 1
    return ''.join(out)

OPEN = {'{': '}', '(': ')', '[': ']'}
CLOSE = {v: k for k, v in OPEN.items()}

def match_close(m, i):
    """m: masked text, i: index of an opening bracket. Returns index of its closing bracket."""
    stack = []
    n = len(m)
    k = i
    while k < n:
        c = m[k]
        if c in OPEN:
            stack.append(c)
        elif c in CLOSE:
            if not stack or stack[-1] != CLOSE[c]:
                raise ParseError('bracket mismatch at %d' % k)
            stack.pop()
            if not stack:
                return k
        k += 1
    raise ParseError('unclosed bracket at %d' % i)

class Item:
    def __init__(self, src, start, end, head, kind, name, body_open, body_close, attrs_end):
        self.src = src            # whole file text (shared)
        self.start = start        # start incl. attributes/doc comments
        self.end = end            # exclusive
        self.head = head          # normalised header text (up to '{' or ';'), attrs stripped
        self.kind = kind          # fn/struct/enum/impl/trait/mod/type/const/static/use/macro/other
        self.name = name
        self.body_open = body_open    # index of '{' or None
        self.body_close = body_close  # index of matching '}' or None
        self.attrs_end = attrs_end    # index where the item proper begins (after attributes)
    @property
    def text(self):
        return self.src[self.start:self.end]
    @property
    def attrs(self):
        return self.src[self.start:self.attrs_end]
    @property
    def proper(self):
        return self.src[self.attrs_end:self.end]
    @property
    def sig(self):
        return self.src[self.attrs_end:self.body_open] if self.body_open is not None else self.proper
    @property
    def body(self):
        return self.src[self.body_open:self.body_close + 1]
    def line_span(self):
        a = self.src.count('\n', 0, self.attrs_end) + 1
        b = self.src.count('\n', 0, self.end) + 1
        return (a, b)
    def children(self):
        if self.body_open is None:
            return []
        return split_items(self.src, self.body_open + 1, self.body_close)

_KIND_RE = re.compile(
    r'^(?:pub(?:\s*\([^)]*\))?\s+)?(?:default\s+)?(?:unsafe\s+)?(?:async\s+)?(?:const\s+(?=fn))?(?:extern\s+"[^"]*"\s+)?'
    r'(fn|struct|enum|union|impl|trait|mod|type|const|static|use|macro_rules!)\b\s*(.*)$', re.S)

def _classify(head):
    h = ' '.join(head.split())
    m = _KIND_RE.match(h)
    if not m:
        return ('other', h, h)
    kind, rest = m.group(1), m.group(2)
    if kind == 'impl':
        # name = the normalised header after generics, e.g. "Decoder for MemcacheBinaryCodec"
        r = rest
        if r.startswith('<'):
            depth = 0
            for k, c in enumerate(r):
                if c == '<': depth += 1
                elif c == '>':
                    depth -= 1
                    if depth == 0:
                        r = r[k+1:].strip(); break
        r = re.sub(r'\s+where\b.*$', '', r).strip()
        return ('impl', r, h)
    mm = re.match(r'([A-Za-z_][A-Za-z0-9_]*)', rest)
    return (kind, mm.group(1) if mm else '', h)

def split_items(src, a=0, b=None, masked=None):
    if b is None: b = len(src)
    m = masked if masked is not None else mask(src)
    items = []
    i = a
    while True:
        # skip whitespace
        while i < b and src[i].isspace(): i += 1
        if i >= b: break
        start = i
        # attributes and comments preceding the item
        while True:
            while i < b and src[i].isspace(): i += 1
            if src.startswith('//', i):
                j = src.find('\n', i); i = b if j < 0 or j > b else j
            elif src.startswith('/*', i):
                # masked block comment: find end by scanning mask for non-space? simpler: find '*/'
                j = src.find('*/', i); i = j + 2
            elif src.startswith('#[', i) or src.startswith('#![', i):
                k = m.find('[', i)
                i = match_close(m, k) + 1
            else:
                break
        if i >= b:
            break  # trailing comments only
        attrs_end = i
        # scan to first top-level '{' or ';'
        k = i
        body_open = body_close = None
        while k < b:
            c = m[k]
            if c in '([':
                k = match_close(m, k) + 1; continue
            if c == '{':
                body_open = k
                body_close = match_close(m, k)
                k = body_close + 1
                break
            if c == ';':
                k += 1
                break
            k += 1
        head = m[attrs_end:(body_open if body_open is not None else k)]
        kind, name, norm = _classify(head)
        # struct/enum with where clauses etc. are fine; tuple structs end with ';'
        # `struct X {..}` no trailing ';'.  Trailing ';' after '}' (e.g. `const X: T = T {..};`)
        if body_open is not None and kind in ('const', 'static', 'type', 'use', 'other'):
            # continue to the ';'
            kk = k
            while kk < b and m[kk] != ';':
                if m[kk] in OPEN: kk = match_close(m, kk)
                kk += 1
            k = kk + 1
            body_open = body_close = None
        items.append(Item(src, start, k, norm, kind, name, body_open, body_close, attrs_end))
        i = k
    return items

def find(items, kind, name):
    r = [it for it in items if it.kind == kind and it.name == name]
    return r

def top_level_loops(body_masked):
    """Yield (keyword_index, open_brace_index) for each loop (loop/while/for) in textual order,
    including nested ones (ordinal = textual order of the keyword)."""
    res = []
    for mm in re.finditer(r'\b(loop|while|for)\b', body_masked):
        k = mm.end()
        # find the '{' that opens the loop body: first '{' at bracket depth 0 after keyword
        # (struct literals are not allowed in loop heads without parens)
        j = k
        n = len(body_masked)
        while j < n:
            c = body_masked[j]
            if c in '([':
                j = match_close(body_masked, j) + 1; continue
            if c == '{':
                res.append((mm.start(), j)); break
            if c == ';' or c == '}':
                break  # e.g. `for` in `impl X for Y`? not inside bodies; ignore
            j += 1
    return res
