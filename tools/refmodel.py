"""Run-time twin of the store/handler-level property statements (DESIGN section 7): a small reference model of
what C01, C02, C05-C08, C11, C12, C19 require of a single-connection command history, compared step by step with
the REAL request path (replay crate: decode -> BinaryHandler -> encode on the real store, injected clock).

It is used only to ILLUSTRATE a failure the verifier has already established (witness search) and, in the thorough
tier, as a consistency check of the specification vocabulary against the unchanged code.  It never decides.

Where the statements leave a choice (which non-zero CAS is issued; how much earlier than its deadline a flushed
item disappears; a store carrying a non-zero CAS for an absent key; `+digits` counters) the model adopts what the
real code did and only checks the constraints the statements do impose."""
import os, struct, subprocess, random, json
import replaytool
from witness import hdr, f_set, f_key, f_flush, f_delta, f_app

OPC = {'get': (0x00, 0x09), 'getk': (0x0c, 0x0d), 'set': (0x01, 0x11), 'add': (0x02, 0x12), 'replace': (0x03, 0x13),
       'delete': (0x04, 0x14), 'incr': (0x05, 0x15), 'decr': (0x06, 0x16), 'append': (0x0e, 0x19), 'prepend': (0x0f, 0x1a),
       'flush': (0x08, 0x18), 'noop': (0x0a, 0x0a), 'version': (0x0b, 0x0b)}
ERRTEXT = {1: b'Not found', 2: b'Key exists', 3: b'Value too big', 6: b'Incr/Decr on non numeric value', 0x81: b'Invalid command'}

class Session:
    def __init__(self, config=()):
        self.p = subprocess.Popen([replaytool.REPLAY_BIN], stdin=subprocess.PIPE, stdout=subprocess.PIPE, text=True, bufsize=1)
        for c in config: self.p.stdin.write(c + '\n')
        self.log = list(config)
    def send(self, line):
        self.log.append(line)
        self.p.stdin.write(line + '\n'); self.p.stdin.flush()
        out = []
        while True:
            l = self.p.stdout.readline()
            if not l: break
            l = l.rstrip('\n')
            if l == 'done': break
            out.append(l)
        return out
    def close(self):
        try:
            self.p.stdin.close(); self.p.wait(timeout=5)
        except Exception:
            self.p.kill()

def parse_resp(hexs):
    b = bytes.fromhex(hexs)
    magic, op, klen, elen, dt, status, blen, opaque, cas = struct.unpack('>BBHBBHIIQ', b[:24])
    body = b[24:]
    return {'magic': magic, 'op': op, 'klen': klen, 'elen': elen, 'dt': dt, 'status': status, 'blen': blen, 'opaque': opaque, 'cas': cas,
            'body': body, 'total': len(b)}

def is_numeric(v):
    return len(v) > 0 and all(0x30 <= c <= 0x39 for c in v) and int(v) < 2**64
def is_plus_numeric(v):
    return len(v) >= 2 and v[0] == 0x2b and is_numeric(v[1:])

class Mismatch(Exception):
    pass

class Model:
    def __init__(self):
        self.items = {}      # key -> dict(value, flags, cas (None = unknown), ts, ttl, deadline (None or absolute), hist=set of CAS carried, counter_origin)
        self.now = 0
        self.unknown = set()
        self.limit = 1048576  # item size limit of the replay driver (`limit <n>` in the session configuration)
    def live(self, k):
        it = self.items.get(k)
        if it is None: return None
        if it['ttl'] != 0 and self.now >= it['ts'] + it['ttl']:
            return None
        if it.get('deadline') is not None and self.now >= it['deadline']:
            return None
        return it
    def uncertain(self, k):
        """a delayed flush only fixes a latest deadline; before it the item may or may not still be there"""
        it = self.live(k)
        return it is not None and it.get('flushed')

def frame(op):
    quiet = op.get('quiet', False)
    code = OPC[op['op']][1 if quiet else 0]
    k = op.get('key', b'')
    opaque = op.get('opaque', 0)
    cas = op.get('cas_value', 0)
    o = op['op']
    if o in ('get', 'getk', 'delete'): return f_key(code, k, cas=cas, opaque=opaque)
    if o in ('set', 'add', 'replace'): return f_set(k, op['value'], flags=op.get('flags', 0), exp=op.get('exp', 0), cas=cas, op=code, opaque=opaque)
    if o in ('append', 'prepend'): return f_app(code, k, op['value'], cas=cas)
    if o in ('incr', 'decr'): return f_delta(code, k, op['delta'], op.get('initial', 0), op.get('exp', 0), cas=cas, opaque=opaque)
    if o == 'flush': return f_flush(op.get('delay'), op=code)
    return hdr(code, opaque=opaque)

def run_history(ops, config=(), stop_at_first=True):
    """ops: list of dicts ({'op': 'tick', 'n': ..} or command dicts; 'cas' may be 0, 'cur', 'stale', or an int).
    Returns None if the real code agrees with the model everywhere, else a dict describing the first mismatch."""
    s = Session(config)
    m = Model()
    for c in config:
        if c.startswith('limit '): m.limit = int(c.split()[1])
    issued = {}   # key -> list of CAS values seen for it (for 'stale')
    try:
        for idx, op in enumerate(ops):
            if op['op'] == 'tick':
                m.now += op['n']; s.send('tick %d' % op['n']); continue
            op = dict(op)
            k = op.get('key', b'')
            it_live = m.live(k)
            c = op.get('cas', 0)
            if c == 'cur':
                c = (it_live or {}).get('cas') or 0
                if c in (0, None): c = 0
            elif c == 'stale':
                olds = [x for x in issued.get(k, []) if not it_live or x != it_live.get('cas')]
                c = olds[0] if olds else 0xdead
            op['cas_value'] = c
            fr = frame(op)
            op['_body_len'] = len(fr) - 24
            out = s.send('feed ' + fr.hex())
            resp = None; silent = False
            for e in out:
                if e.startswith('resp '): resp = parse_resp(e.split()[1])
                elif e == 'silent': silent = True
                elif e.startswith('panic') or e.startswith('err'):
                    raise Mismatch('step %d %s: %s (C10: no client input may crash request processing)' % (idx, op['op'], e))
            try:
                check_step(m, op, c, resp, silent, issued)
            except Mismatch as ex:
                return {'step': idx, 'op': {kk: (vv.decode('latin1') if isinstance(vv, bytes) else vv) for kk, vv in op.items()}, 'why': str(ex), 'lines': list(s.log), 'observed': out}
        return None
    except Mismatch as ex:
        return {'step': idx, 'op': {kk: (vv.decode('latin1') if isinstance(vv, bytes) else vv) for kk, vv in op.items()}, 'why': str(ex), 'lines': list(s.log), 'observed': []}
    finally:
        s.close()

def expect_err(resp, silent, op, status, what):
    quiet = op.get('quiet', False)
    if op['op'] in ('get', 'getk') and quiet:
        if not silent: raise Mismatch('%s: quiet get miss must be silent (C12)' % what)
        return
    if resp is None: raise Mismatch('%s: an error response is required (status 0x%04x), got none' % (what, status))
    if resp['status'] != status: raise Mismatch('%s: status 0x%04x, required 0x%04x' % (what, resp['status'], status))
    wf(resp, op)
    if status in ERRTEXT and resp['body'] != ERRTEXT[status]: raise Mismatch('%s: error text %r' % (what, resp['body']))

def wf(resp, op):
    """C11: well-formed, correlated frame"""
    code = OPC[op['op']][1 if op.get('quiet') else 0]
    if resp['magic'] != 0x81 or resp['dt'] != 0: raise Mismatch('C11: magic/data type of the response')
    if resp['op'] != code: raise Mismatch('C11: opcode 0x%02x echoed as 0x%02x' % (code, resp['op']))
    if resp['opaque'] != op.get('opaque', 0): raise Mismatch('C11: opaque not echoed')
    if resp['blen'] != len(resp['body']) or resp['total'] != 24 + resp['blen']: raise Mismatch('C11: body length %d but %d bytes follow' % (resp['blen'], len(resp['body'])))
    if resp['klen'] + resp['elen'] > resp['blen']: raise Mismatch('C11: key length + extras length exceed the body length')

def expect_ok_mutation(resp, silent, op, what):
    if op.get('quiet'):
        if not silent: raise Mismatch('%s: a successful quiet mutation must be silent (C12)' % what)
        return None
    if resp is None: raise Mismatch('%s: exactly one response required (C12), got none' % what)
    if resp['status'] != 0: raise Mismatch('%s: status 0x%04x, required success' % (what, resp['status']))
    wf(resp, op)
    return resp

def store_item(m, k, value, flags, ttl, resp, issued, lifetime_new):
    old = m.items.get(k)
    hist = set() if (lifetime_new or old is None) else set(old['hist'])
    cas = resp['cas'] if resp is not None else None
    if cas is not None:
        if cas == 0: raise Mismatch('C01/C02: acknowledged CAS is 0')
        if cas in hist and (old is None or old.get('counter_origin', True)):
            raise Mismatch('C02: CAS %d was already carried by this item during its current lifetime' % cas)
        hist.add(cas)
        issued.setdefault(k, []).append(cas)
    m.items[k] = {'value': value, 'flags': flags, 'cas': cas, 'ts': m.now, 'ttl': ttl, 'deadline': None, 'flushed': False, 'hist': hist,
                  'counter_origin': True if (lifetime_new or old is None) else old.get('counter_origin', True)}

def check_step(m, op, cas, resp, silent, issued):
    o = op['op']; k = op.get('key', b'')
    if op.get('_body_len', 0) > m.limit:
        # C13: refused with 'too large', stores or changes nothing (the model state stays as it is)
        if resp is None: raise Mismatch('%s with a %d-byte body under a %d-byte limit: a "too large" response is required, got none (C13)' % (o, op['_body_len'], m.limit))
        if resp['status'] != 0x0003: raise Mismatch('%s with a %d-byte body under a %d-byte limit: status 0x%04x, required 0x0003 (C13)' % (o, op['_body_len'], m.limit, resp['status']))
        return
    if o == 'flush' and not op.get('delay'):
        m.unknown.clear()
    if k in m.unknown and o not in ('flush', 'noop', 'version'):
        # state unknown: only well-formedness is checked; a retrieval re-synchronises the model
        if resp is not None: wf(resp, op)
        if o in ('get', 'getk'):
            if resp is not None and resp['status'] == 0:
                flags = struct.unpack('>I', resp['body'][:4])[0]
                m.items[k] = {'value': resp['body'][4 + resp['klen']:], 'flags': flags, 'cas': resp['cas'], 'ts': m.now, 'ttl': 0, 'deadline': None, 'flushed': True, 'hist': {resp['cas']}, 'counter_origin': False}
                # ttl unknown: treat like a flushed item (may disappear at any time)
                m.items[k]['deadline'] = 2**62
                m.unknown.discard(k)
            elif (resp is not None and resp['status'] == 1) or (resp is None and silent and op.get('quiet')):
                m.items.pop(k, None); m.unknown.discard(k)
        return
    it = m.live(k)
    if it is None and k in m.items:
        pass
    unsure = it is not None and it.get('flushed')
    what = '%s%s %r' % (o, 'q' if op.get('quiet') else '', k)
    if o in ('get', 'getk'):
        hit = resp is not None and resp['status'] == 0
        if it is None:
            expect_err(resp, silent, op, 1, what + ' on an absent/expired key'); m.items.pop(k, None); return
        if unsure and not hit:
            expect_err(resp, silent, op, 1, what); m.items.pop(k, None); return   # disappeared before its deadline: allowed
        if resp is None: raise Mismatch('%s: a hit must be answered, also by the quiet variants (C12)' % what)
        if resp['status'] != 0: raise Mismatch('%s: status 0x%04x but the item is live (stored at %d, ttl %d, now %d) (C01/C05)' % (what, resp['status'], it['ts'], it['ttl'], m.now))
        wf(resp, op)
        if resp['elen'] != 4: raise Mismatch('C11: hit without 4 flag bytes')
        flags = struct.unpack('>I', resp['body'][:4])[0]
        wantk = k if o == 'getk' else b''
        if resp['klen'] != len(wantk) or resp['body'][4:4 + resp['klen']] != wantk: raise Mismatch('C11: key echoed only (and exactly) by the get-key variants')
        val = resp['body'][4 + resp['klen']:]
        if val != it['value']: raise Mismatch('%s: value %r, stored %r (C01)' % (what, val[:40], it['value'][:40]))
        if flags != it['flags']: raise Mismatch('%s: flags 0x%08x, stored 0x%08x (C01/C06/C07)' % (what, flags, it['flags']))
        if resp['cas'] == 0: raise Mismatch('C01: retrieval with CAS 0')
        if it['cas'] is not None and resp['cas'] != it['cas']: raise Mismatch('C02: retrieval reports CAS %d, acknowledged was %d' % (resp['cas'], it['cas']))
        if it['cas'] is None and resp['cas'] in it['hist'] and it.get('counter_origin', True):
            raise Mismatch('C02/C19: after a silent (quiet) mutation the item still carries CAS %d, which it carried before that mutation' % resp['cas'])
        it['cas'] = resp['cas']; it['hist'].add(resp['cas'])
        return
    if o in ('set', 'add', 'replace', 'append', 'prepend'):
        if unsure: return adopt(m, op, resp, k)
        if o == 'add' and it is not None: return expect_err(resp, silent, op, 2, what + ' on a present key')
        if o in ('replace', 'append', 'prepend') and it is None:
            expect_err(resp, silent, op, 1, what + ' on an absent/expired key'); m.items.pop(k, None); return
        present = it is not None
        if cas != 0 and present and it['cas'] is not None and o != 'add':
            if cas != it['cas']: return expect_err(resp, silent, op, 2, what + ' with a CAS that is not the current one')
        if cas != 0 and not present:
            # C02's quantifier leaves the CAS of such a lifetime open (memc-rs stores the request with a client-derived
            # CAS).  But IF the store is acknowledged, the item is stored like any other: value, flags and expiry
            # (C01, C05) are checked from here on; only the CAS-uniqueness claim does not apply to this lifetime.
            if resp is not None and resp['status'] == 0 and o in ('set', 'add', 'replace'):
                wf(resp, op)
                store_item(m, k, op['value'], op.get('flags', 0), op.get('exp', 0), resp, issued, lifetime_new=True)
                m.items[k]['counter_origin'] = False
                return
            return adopt(m, op, resp, k)
        if cas != 0 and present and it['cas'] is None:
            return adopt(m, op, resp, k)
        r = expect_ok_mutation(resp, silent, op, what)
        if o in ('set', 'add', 'replace'):
            store_item(m, k, op['value'], op.get('flags', 0), op.get('exp', 0), r, issued, lifetime_new=not present)
        else:
            nv = it['value'] + op['value'] if o == 'append' else op['value'] + it['value']
            store_item(m, k, nv, it['flags'], it['ttl'], r, issued, lifetime_new=False)
        return
    if o == 'delete':
        if unsure: return adopt(m, op, resp, k)
        phys = m.items.get(k)
        if it is None and phys is None: return expect_err(resp, silent, op, 1, what + ' on an absent key')
        if it is None: return adopt(m, op, resp, k)          # expired but maybe not collected: either answer (DESIGN 5a)
        if cas != 0 and it['cas'] is not None and cas != it['cas']: return expect_err(resp, silent, op, 2, what + ' with a stale CAS')
        if cas != 0 and it['cas'] is None: return adopt(m, op, resp, k)
        expect_ok_mutation(resp, silent, op, what); m.items.pop(k, None); return
    if o in ('incr', 'decr'):
        if unsure: return adopt(m, op, resp, k)
        if it is None:
            m.items.pop(k, None)
            if op.get('exp', 0) == 0xffffffff: return expect_err(resp, silent, op, 1, what + ' with expiration 0xffffffff on an absent key')
            if cas != 0:
                # C07 makes no exception for a request CAS: the counter is created with the initial value (only the
                # CAS-uniqueness claim of C02 is open for a lifetime begun this way)
                if resp is None and not (silent and op.get('quiet')): raise Mismatch('%s carrying a CAS on an absent key: the counter must be created and the initial value returned (C07), got no response' % what)
                if resp is not None and resp['status'] != 0: raise Mismatch('%s carrying a CAS on an absent key: status 0x%04x, the counter must be created with the initial value (C07)' % (what, resp['status']))
                if resp is not None:
                    wf(resp, op)
                    if resp['blen'] != 8 or struct.unpack('>Q', resp['body'])[0] != op.get('initial', 0): raise Mismatch('%s: created counter must return the initial value in 8 bytes (C07/C11)' % what)
                store_item(m, k, str(op.get('initial', 0)).encode(), 0, op.get('exp', 0), resp, issued, lifetime_new=True)
                m.items[k]['counter_origin'] = False
                return
            r = expect_ok_mutation(resp, silent, op, what)
            if r is not None and (r['blen'] != 8 or struct.unpack('>Q', r['body'])[0] != op.get('initial', 0)): raise Mismatch('%s: created counter must return the initial value in 8 bytes (C07/C11)' % what)
            store_item(m, k, str(op.get('initial', 0)).encode(), 0, op.get('exp', 0), r, issued, lifetime_new=True); return
        v = it['value']
        if is_plus_numeric(v): return adopt(m, op, resp, k)
        if not is_numeric(v): return expect_err(resp, silent, op, 6, what + ' on a non-numeric value')
        if cas != 0 and it['cas'] is not None and cas != it['cas']: return expect_err(resp, silent, op, 2, what + ' with a stale CAS')
        if cas != 0 and it['cas'] is None: return adopt(m, op, resp, k)
        n = int(v); d = op['delta']
        nv = (n + d) % 2**64 if o == 'incr' else max(n - d, 0)
        r = expect_ok_mutation(resp, silent, op, what)
        if r is not None and (r['blen'] != 8 or struct.unpack('>Q', r['body'])[0] != nv): raise Mismatch('%s: returned %r, required %d in 8 big-endian bytes (C07)' % (what, r['body'], nv))
        store_item(m, k, str(nv).encode(), it['flags'], it['ttl'], r, issued, lifetime_new=False); return
    if o == 'flush':
        expect_ok_mutation(resp, silent, op, what)
        d = op.get('delay')
        if not d:
            m.items.clear()
        else:
            for kk, x in m.items.items():
                x['flushed'] = True
                x['deadline'] = m.now + d if x['deadline'] is None else min(x['deadline'], m.now + d)
        return
    if o in ('noop', 'version'):
        if resp is None or resp['status'] != 0: raise Mismatch('%s must be answered with success (C12)' % o)
        wf(resp, op); return

def adopt(m, op, resp, k):
    """the statements leave this case open: the item's state becomes unknown to the model; the next retrieval of
    the key re-synchronises it with what the real code holds"""
    m.items.pop(k, None)
    m.unknown.add(k)

# ------------------------------------------------------------------------------------------------
def boundary_histories():
    """the obligation-independent boundary catalogue: every command kind on absent / present / expired / flushed keys,
    CAS in {0, current, stale, current+1, u64::MAX}, clock at expiry -1/0/+1, extreme counters, binary values"""
    H = []
    K = b'k'; J = b'other-key'
    V = bytes(range(256))[:40]
    def s(**kw): return dict(op='set', key=K, value=b'v1', **kw)
    for q in (False, True):
        H.append([s(flags=0xdeadbeef, quiet=q), dict(op='get', key=K), dict(op='getk', key=K), dict(op='get', key=J), dict(op='set', key=J, value=V, flags=7), dict(op='get', key=K), dict(op='get', key=J), dict(op='getk', key=J, quiet=True)])
        H.append([s(quiet=q), dict(op='set', key=K, value=b'v2', cas='cur', flags=0xffffff02, quiet=q), dict(op='get', key=K), dict(op='set', key=K, value=b'v3'), dict(op='set', key=K, value=b'LOST', cas='stale', quiet=q), dict(op='get', key=K)])
        H.append([s(), dict(op='replace', key=K, value=b'r', cas='cur', flags=5, quiet=q), dict(op='get', key=K), dict(op='replace', key=J, value=b'x', quiet=q), dict(op='get', key=J), dict(op='add', key=K, value=b'a', quiet=q), dict(op='get', key=K), dict(op='add', key=J, value=b'a', flags=9, quiet=q), dict(op='get', key=J)])
        H.append([s(flags=0x01020304, exp=100), dict(op='append', key=K, value=b'|tail\xff', quiet=q), dict(op='get', key=K), dict(op='prepend', key=K, value=b'\x00head|', quiet=q), dict(op='get', key=K), dict(op='append', key=J, value=b'x', quiet=q), dict(op='prepend', key=K, value=b'', quiet=q), dict(op='get', key=K), dict(op='tick', n=99), dict(op='get', key=K), dict(op='tick', n=2), dict(op='get', key=K)])
        H.append([s(exp=5), dict(op='tick', n=4), dict(op='get', key=K), dict(op='tick', n=1), dict(op='get', key=K), dict(op='add', key=K, value=b'again', quiet=q), dict(op='get', key=K)])
        H.append([s(exp=5), dict(op='tick', n=5), dict(op='replace', key=K, value=b'r', quiet=q), dict(op='append', key=K, value=b'a', quiet=q), dict(op='incr', key=K, delta=1, exp=0xffffffff, quiet=q), dict(op='get', key=K)])
        H.append([s(exp=5), dict(op='flush', delay=100, quiet=q), dict(op='tick', n=5), dict(op='get', key=K)])
        H.append([dict(op='tick', n=100), s(exp=60), dict(op='flush', delay=10, quiet=q), dict(op='tick', n=10), dict(op='get', key=K), dict(op='set', key=K, value=b'after'), dict(op='tick', n=1000), dict(op='get', key=K)])
        H.append([s(), dict(op='set', key=J, value=b'w'), dict(op='flush', quiet=q), dict(op='get', key=K), dict(op='get', key=J), dict(op='set', key=K, value=b'new'), dict(op='get', key=K)])
        H.append([s(), dict(op='delete', key=K, cas='stale', quiet=q), dict(op='get', key=K), dict(op='delete', key=K, cas='cur', quiet=q), dict(op='get', key=K), dict(op='delete', key=K, cas=5, quiet=q), dict(op='delete', key=K, quiet=q), dict(op='set', key=J, value=b'w'), dict(op='delete', key=K, quiet=q), dict(op='get', key=J)])
        for start, d, o in ((b'18446744073709551615', 1, 'incr'), (b'5', 10, 'decr'), (b'007', 3, 'incr'), (b'0', 2**64 - 1, 'incr'), (b'18446744073709551615', 2**64 - 1, 'decr'), (b'12345678901234567890', 1, 'incr')):
            H.append([dict(op='set', key=K, value=start, flags=0xcafe, exp=50), dict(op=o, key=K, delta=d, opaque=0x1234, exp=0, quiet=q), dict(op='get', key=K), dict(op='tick', n=49), dict(op='get', key=K), dict(op='tick', n=2), dict(op='get', key=K)])
        for bad in (b'', b'-1', b' 1', b'1 ', b'\xff\xfe', b'18446744073709551616', b'1.5', b'abc'):
            H.append([dict(op='set', key=K, value=bad, flags=3), dict(op='incr', key=K, delta=1, quiet=q), dict(op='get', key=K)])
        H.append([dict(op='incr', key=K, delta=5, initial=42, exp=0xffffffff, quiet=q), dict(op='get', key=K), dict(op='decr', key=K, delta=5, initial=42, exp=7, quiet=q), dict(op='get', key=K), dict(op='incr', key=K, delta=8, exp=0xffffffff, quiet=q), dict(op='get', key=K), dict(op='tick', n=7), dict(op='get', key=K)])
        H.append([s(), dict(op='incr', key=K, delta=1, cas='stale', quiet=q), dict(op='set', key=K, value=b'10'), dict(op='incr', key=K, delta=1, cas='stale', quiet=q), dict(op='get', key=K), dict(op='incr', key=K, delta=1, cas='cur', quiet=q), dict(op='get', key=K)])
        H.append([dict(op='set', key=b'x' * 250, value=b'', flags=0xffffffff), dict(op='getk', key=b'x' * 250, quiet=q), dict(op='getk', key=b'y' * 17), dict(op='getk', key=b'y' * 17, quiet=True), dict(op='noop', opaque=0xabcdef01), dict(op='version', opaque=5)])
        for big in (2592000, 2592001, 2**31, 2**32 - 1):
            H.append([dict(op='tick', n=100), s(exp=big), dict(op='get', key=K), dict(op='tick', n=1000), dict(op='get', key=K), dict(op='tick', n=big - 1001), dict(op='get', key=K), dict(op='tick', n=1), dict(op='get', key=K)])
        H.append([dict(op='set', key=K, value=b'7'), dict(op='incr', key=K, delta=0, cas='stale', quiet=q), dict(op='get', key=K), dict(op='incr', key=K, delta=0, quiet=q), dict(op='set', key=K, value=b'9', cas='stale', quiet=q), dict(op='get', key=K)])
        H.append([dict(op='tick', n=100), s(exp=10), dict(op='tick', n=8), dict(op='flush', delay=5, quiet=q), dict(op='tick', n=2), dict(op='get', key=K)])
        H.append([dict(op='tick', n=100), s(exp=10), dict(op='tick', n=50), dict(op='flush', delay=5, quiet=q), dict(op='tick', n=1), dict(op='get', key=K)])
        H.append([s(), s(), dict(op='set', key=J, value=b'x', cas=2**64 - 1, quiet=q), s(), s(), s(), dict(op='set', key=K, value=b'LOST', cas='stale', quiet=q), dict(op='get', key=K)])
        H.append([s(), s(), dict(op='set', key=J, value=b'x', cas=2**64 - 2, quiet=q), s(), s(), s(), s(), dict(op='set', key=K, value=b'LOST', cas='stale', quiet=q), dict(op='get', key=K)])
        H.append([dict(op='incr', key=K, delta=1, initial=41, cas=9, exp=0, quiet=q), dict(op='get', key=K), dict(op='decr', key=J, delta=1, initial=7, cas=2**64 - 1, exp=30, quiet=q), dict(op='get', key=J), dict(op='incr', key=K, delta=1, quiet=q), dict(op='get', key=K)])
        # an acknowledged CAS store on an absent key is a store: it lives for its ttl from NOW, also late in the server's life
        H.append([dict(op='tick', n=1000), dict(op='set', key=K, value=b'w', cas=7, exp=60, flags=3, quiet=q), dict(op='get', key=K), dict(op='tick', n=59), dict(op='get', key=K), dict(op='tick', n=1), dict(op='get', key=K)])
        H.append([dict(op='tick', n=500), s(exp=5), dict(op='tick', n=5), dict(op='set', key=K, value=b'back', cas='stale', exp=30, quiet=q), dict(op='get', key=K), dict(op='tick', n=29), dict(op='get', key=K)])
        # storing the same value again is a mutation like any other: new CAS, TTL restarted (also for the quiet variants)
        H.append([s(quiet=q), dict(op='get', key=K), s(quiet=q), dict(op='get', key=K), dict(op='set', key=K, value=b'LOST', cas='stale', quiet=q), dict(op='get', key=K)])
        H.append([s(exp=5, quiet=q), dict(op='tick', n=4), s(exp=5, quiet=q), dict(op='tick', n=3), dict(op='get', key=K), dict(op='tick', n=2), dict(op='get', key=K)])
        H.append([s(exp=5, flags=9, quiet=q), dict(op='tick', n=4), dict(op='replace', key=K, value=b'v1', flags=9, exp=5, quiet=q), dict(op='tick', n=3), dict(op='get', key=K)])
        # a SMALL client-chosen CAS stored on an absent key must not pull the counter back below values already issued
        for small in (1, 2, 3):
            H.append([s(), s(), s(), s(), dict(op='set', key=J, value=b'x', cas=small, quiet=q), s(), s(), s(), s(), dict(op='set', key=K, value=b'LOST', cas='stale', quiet=q), dict(op='get', key=K)])
        H.append([dict(op='set', key=K, value=b'v', cas=2**64 - 1), dict(op='get', key=K), dict(op='set', key=K, value=b'w', cas=2**64 - 1, quiet=q), dict(op='get', key=K)])
    return H

def limit_histories():
    """C13 under `limit 1024`: an oversized request of every storing opcode is refused and changes nothing"""
    K = b'k'; J = b'j'
    big = b'B' * 2000
    H = []
    for q in (False, True):
        for o in ('set', 'add', 'replace', 'append', 'prepend'):
            H.append([dict(op='set', key=K, value=b'small', flags=5), dict(op=o, key=K, value=big, quiet=q), dict(op='get', key=K), dict(op=o, key=J, value=big, quiet=q), dict(op='get', key=J),
                      dict(op='set', key=K, value=b'x' * 1000), dict(op='get', key=K), dict(op='set', key=K, value=b'y' * 1024, quiet=q), dict(op='get', key=K)])
        H.append([dict(op='set', key=K, value=b'7'), dict(op='set', key=K, value=big, cas='cur', quiet=q), dict(op='get', key=K), dict(op='incr', key=K, delta=1), dict(op='get', key=K)])
    return H

def random_history(rng, n=40):
    keys = [b'a', b'b', b'c']
    ops = []
    for _ in range(n):
        k = rng.choice(keys); q = rng.random() < 0.3
        c = rng.choice(['get', 'getk', 'set', 'set', 'add', 'replace', 'append', 'prepend', 'delete', 'incr', 'decr', 'tick', 'flush'])
        cas = rng.choice([0, 0, 0, 'cur', 'stale'])
        if c == 'tick': ops.append(dict(op='tick', n=rng.choice([1, 2, 5, 30])))
        elif c == 'flush': ops.append(dict(op='flush', quiet=q, delay=rng.choice([None, None, 3, 40])))
        elif c in ('get', 'getk'): ops.append(dict(op=c, key=k, quiet=q, opaque=rng.getrandbits(32)))
        elif c == 'delete': ops.append(dict(op=c, key=k, quiet=q, cas=cas))
        elif c in ('incr', 'decr'): ops.append(dict(op=c, key=k, quiet=q, delta=rng.choice([0, 1, 7, 2**63, 2**64 - 1]), initial=rng.choice([0, 9]), exp=rng.choice([0, 4, 0xffffffff]), cas=cas, opaque=rng.getrandbits(32)))
        else: ops.append(dict(op=c, key=k, quiet=q, value=rng.choice([b'', b'1', b'41', b'xyz', bytes([0, 255, 10])]), flags=rng.getrandbits(32), exp=rng.choice([0, 0, 3, 50]), cas=cas))
    return ops

def search(seed=0, n_random=30, config=()):
    """returns (witness or None, number of histories run)"""
    n = 0
    for h in boundary_histories():
        n += 1
        r = run_history(h, config)
        if r: return r, n
    if not any(c.startswith('limit ') for c in config):
        for h in limit_histories():
            n += 1
            r = run_history(h, tuple(config) + ('limit 1024',))
            if r:
                r['config'] = list(config) + ['limit 1024']
                return r, n
    rng = random.Random(seed)
    for _ in range(n_random):
        n += 1
        r = run_history(random_history(rng), config)
        if r: return r, n
    return None, n

if __name__ == '__main__':
    import sys
    ok, err = replaytool.build_replay_bin()
    w, n = search(int(sys.argv[1]) if len(sys.argv) > 1 else 0, int(sys.argv[2]) if len(sys.argv) > 2 else 30)
    print('histories run:', n)
    print(json.dumps(w, indent=1, default=str) if w else 'model and real code agree')
