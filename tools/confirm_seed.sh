#!/bin/bash
# usage: confirm_seed.sh <name> <outdir-with-patch.diff,demo.diff> <target-dir>
# Confirms in a fresh scratch worktree of /repo: patch compiles + existing suite passes; demo fails with the patch, passes without.
NAME=$1; OUT=$2; TGT=$3
WT=/tmp/confirm-$NAME
git -C /repo worktree remove --force $WT 2>/dev/null
git -C /repo worktree add -q --detach $WT HEAD || exit 3
cd $WT
export CARGO_TARGET_DIR=$TGT CARGO_NET_OFFLINE=true
git apply $OUT/patch.diff || { echo "RESULT $NAME patch-does-not-apply"; exit 3; }
SUITE=$(cargo test --workspace --no-fail-fast --offline 2>&1 | grep -E "^test result" | head -1)
git apply $OUT/demo.diff || { echo "RESULT $NAME demo-does-not-apply"; }
DEMOFILE=$(grep -E '^\+\+\+ b/' $OUT/demo.diff | head -1 | sed 's#+++ b/##')
T=$(basename $DEMOFILE .rs)
WITH=$(cargo test --offline -p memcrs --test $T 2>&1 | grep -E "^test result|error\[" | head -1)
git apply -R $OUT/patch.diff
WITHOUT=$(cargo test --offline -p memcrs --test $T 2>&1 | grep -E "^test result" | head -1)
echo "RESULT $NAME | suite-with-patch: $SUITE | demo-with-patch: $WITH | demo-without-patch: $WITHOUT"
cd /; git -C /repo worktree remove --force $WT
