// ---------------------------------------------------------------------------------------------
// Store-level specification vocabulary (DESIGN §5).  Spec only; written from the property statements.
// ---------------------------------------------------------------------------------------------
pub struct Item {
    pub value: Seq<u8>,
    pub flags: u32,
    pub cas: u64,
    pub ts: u64,    // server time of the last successful mutation
    pub ttl: u32,   // 0 = never expires
}
pub type CView = Map<Seq<u8>, Item>;

pub open spec fn item_of(r: Record) -> Item {
    Item { value: r.value@, flags: r.header.flags, cas: r.header.cas, ts: r.header.timestamp, ttl: r.header.time_to_live }
}
// ASSUMED of every record the map hands out: it was stamped by `set` with a clock value below 2^63
pub open spec fn stamped_ok(r: Record) -> bool { r.header.timestamp < 0x8000_0000_0000_0000 }

pub open spec fn same_item(a: Item, b: Item) -> bool {
    a.value =~= b.value && a.flags == b.flags && a.cas == b.cas && a.ts == b.ts && a.ttl == b.ttl
}

// C05: an item stored at time ts with ttl != 0 is retrievable at every t < ts + ttl and never at or after it
pub open spec fn live(i: Item, t: u64) -> bool { i.ttl == 0 || (t as int) < i.ts as int + i.ttl as int }
pub open spec fn expiry(i: Item) -> int { if i.ttl == 0 { -1 } else { i.ts as int + i.ttl as int } }   // -1 = never

// what a client can observe of key k at time t
pub open spec fn lookup(m: CView, t: u64, k: Seq<u8>) -> Option<Item> {
    if m.contains_key(k) && live(m[k], t) { Some(m[k]) } else { None }
}
pub open spec fn same_observations(a: CView, b: CView, t: u64) -> bool {
    forall|k: Seq<u8>| lookup(a, t, k) == lookup(b, t, k)
}

// ------------------------------------------------------------------------------------------------
// Command semantics at the store API, one predicate per command (old state, arguments, result, new state).
// ------------------------------------------------------------------------------------------------

// the item a successful store of (value, flags, ttl) at time `now` with acknowledged CAS `c` leaves behind
pub open spec fn stored_item(value: Seq<u8>, flags: u32, ttl: u32, now: u64, c: u64) -> Item {
    Item { value, flags, cas: c, ts: now, ttl }
}

// C01/C02: set(key, record{value,flags,ttl,cas=req}) on a store without eviction
pub open spec fn post_set(v0: CView, cas0: u64, now: u64, k: Seq<u8>, value: Seq<u8>, flags: u32, ttl: u32, req_cas: u64,
                          ok: bool, err_key_exists: bool, err_not_found: bool, acked: u64, v1: CView, cas1: u64) -> bool {
    if req_cas == 0 {
        // unconditional store: always succeeds, CAS from the counter (watermark rule)
        &&& ok
        &&& acked != 0
        &&& acked >= cas0 && cas1 > acked
        &&& v1 =~= v0.insert(k, stored_item(value, flags, ttl, now, acked))
    } else if v0.contains_key(k) {
        if v0[k].cas != req_cas {
            // C02: stale or wrong CAS: 'key exists', item untouched, nothing else changes
            &&& !ok && err_key_exists
            &&& v1 =~= v0
            &&& cas1 == cas0
        } else {
            // C02: matching CAS: succeeds with a CAS the item has not carried before (fresh from the counter)
            &&& ok
            &&& acked != 0
            &&& acked >= cas0 && cas1 > acked
            &&& v1 =~= v0.insert(k, stored_item(value, flags, ttl, now, acked))
        }
    } else {
        // non-zero CAS on an absent key: outside the uniqueness claim; memc-rs stores it with a
        // client-derived CAS.  Required only: if it succeeds the item is exactly what was sent, CAS non-zero
        // and reported; if it fails nothing changes.  The counter is not moved backwards.
        &&& cas1 >= cas0
        &&& (ok ==> acked != 0 && v1 =~= v0.insert(k, stored_item(value, flags, ttl, now, acked)))
        &&& (!ok ==> v1 =~= v0 && (err_key_exists || err_not_found))
    }
}

// C08: delete(key, cas)
pub open spec fn post_delete(v0: CView, k: Seq<u8>, req_cas: u64, ok: bool, not_found: bool, key_exists: bool, v1: CView) -> bool {
    if !v0.contains_key(k) { !ok && not_found && v1 =~= v0 }
    else if req_cas == 0 || v0[k].cas == req_cas { ok && v1 =~= v0.remove(k) }
    else { !ok && key_exists && v1 =~= v0 }
}

// C05/C08: flush(delay)
pub open spec fn post_flush(v0: CView, now: u64, delay: u32, v1: CView) -> bool {
    if delay == 0 {
        v1 =~= Map::<Seq<u8>, Item>::empty()
    } else {
        &&& v1.dom() =~= v0.dom()
        &&& forall|k: Seq<u8>| #[trigger] v0.contains_key(k) ==> {
                &&& v1[k].value == v0[k].value && v1[k].flags == v0[k].flags && v1[k].cas == v0[k].cas
                // C08: unretrievable from `delay` seconds after the flush at the latest
                &&& v1[k].ttl != 0 && expiry(v1[k]) <= now as int + delay as int
                // C05: never prolongs an item's life beyond its own ttl
                &&& (v0[k].ttl != 0 ==> expiry(v1[k]) <= expiry(v0[k]))
            }
    }
}

// ------------------------------------------------------------------------------------------------
// C07: counters.  Stored counters are ASCII decimal text.
// ------------------------------------------------------------------------------------------------
pub open spec fn is_digit(c: u8) -> bool { 0x30 <= c <= 0x39 }
pub open spec fn all_digits(s: Seq<u8>) -> bool { s.len() > 0 && forall|i: int| 0 <= i < s.len() ==> is_digit(#[trigger] s[i]) }
pub open spec fn dec_val(s: Seq<u8>) -> nat decreases s.len() {
    if s.len() == 0 { 0 } else { dec_val(s.drop_last()) * 10 + (s.last() - 0x30) as nat }
}
// "an ASCII decimal u64": digits only (leading zeros allowed), value below 2^64
pub open spec fn numeric_u64(s: Seq<u8>) -> bool { all_digits(s) && dec_val(s) < 0x1_0000_0000_0000_0000 }
// Rust's parse::<u64> also accepts one leading '+'; the statement says "ASCII decimal u64", so such texts are
// left unconstrained (either outcome accepted) - DESIGN §5 (b)
pub open spec fn plus_numeric(s: Seq<u8>) -> bool { s.len() >= 2 && s[0] == 0x2b && numeric_u64(s.subrange(1, s.len() as int)) }
// canonical decimal text of n (no leading zeros)
pub open spec fn dec_text(n: nat) -> Seq<u8> decreases n {
    if n < 10 { seq![(0x30 + n) as u8] } else { dec_text(n / 10).push((0x30 + n % 10) as u8) }
}
pub open spec fn delta_apply(incr: bool, v: u64, d: u64) -> u64 {
    if incr { ((v as int + d as int) % 0x1_0000_0000_0000_0000) as u64 } else if d > v { 0 } else { (v - d) as u64 }
}
