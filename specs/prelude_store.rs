// ---------------------------------------------------------------------------------------------
// Stand-ins for dashmap, the clock and AtomicU64 - sequential prelude (DESIGN §4.3, §4.5).  ASSUMED.
// R4: interior mutability is sequentialised: operations that mutate take `&mut self`.
// Guards borrow the map, so "a map call while a guard is alive" does not borrow-check (C16).
// ---------------------------------------------------------------------------------------------
pub mod atomic {
    use vstd::prelude::*;
    #[derive(Clone, Copy)]
    pub enum Ordering { Relaxed, Release, Acquire, AcqRel, SeqCst }
    #[verifier::external_body]
    pub struct AtomicU64 { _p: core::marker::PhantomData<u8> }
    impl AtomicU64 {
        pub uninterp spec fn val(&self) -> u64;
        #[verifier::external_body]
        pub fn new(v: u64) -> (r: AtomicU64) ensures r.val() == v { unimplemented!() }
        // wraps modulo 2^64 like the real one; returns the previous value
        #[verifier::external_body]
        pub fn fetch_add(&mut self, v: u64, o: Ordering) -> (r: u64)
            ensures r == old(self).val(), final(self).val() == ((old(self).val() as int + v as int) % 0x1_0000_0000_0000_0000) as u64 { unimplemented!() }
        #[verifier::external_body]
        pub fn fetch_sub(&mut self, v: u64, o: Ordering) -> (r: u64)
            ensures r == old(self).val(), final(self).val() == ((old(self).val() as int - v as int) % 0x1_0000_0000_0000_0000) as u64 { unimplemented!() }
        #[verifier::external_body]
        pub fn load(&self, o: Ordering) -> (r: u64) ensures r == self.val() { unimplemented!() }
        #[verifier::external_body]
        pub fn store(&mut self, v: u64, o: Ordering) ensures final(self).val() == v { unimplemented!() }
        #[verifier::external_body]
        pub fn swap(&mut self, v: u64, o: Ordering) -> (r: u64) ensures r == old(self).val(), final(self).val() == v { unimplemented!() }
        #[verifier::external_body]
        pub fn fetch_max(&mut self, v: u64, o: Ordering) -> (r: u64)
            ensures r == old(self).val(), final(self).val() == (if v > old(self).val() { v } else { old(self).val() }) { unimplemented!() }
        #[verifier::external_body]
        pub fn fetch_min(&mut self, v: u64, o: Ordering) -> (r: u64)
            ensures r == old(self).val(), final(self).val() == (if v < old(self).val() { v } else { old(self).val() }) { unimplemented!() }
    }
}
pub use atomic::{AtomicU64, Ordering};

// The injected clock (trait object `Arc<dyn Timer + Send + Sync>` in /repo).  Within one command the
// clock is read as a constant `now()`; it advances (monotonically) only between commands.
#[verifier::external_body]
pub struct TimerS { _p: core::marker::PhantomData<u8> }
impl TimerS {
    pub uninterp spec fn now(&self) -> u64;
    #[verifier::external_body]
    pub fn timestamp(&self) -> (r: u64) ensures r == self.now() { unimplemented!() }
}

// dashmap::DashMap<KeyType, Record>, sequential stand-in.  View: key bytes -> Item.
#[verifier::external_body]
pub struct Storage { _p: core::marker::PhantomData<u8> }
impl View for Storage { type V = Map<Seq<u8>, Item>; uninterp spec fn view(&self) -> Map<Seq<u8>, Item>; }

impl Storage {
    #[verifier::external_body]
    pub fn new() -> (r: Storage) ensures r@ =~= Map::<Seq<u8>, Item>::empty() { unimplemented!() }
    // shared guard: the result borrows the map
    #[verifier::external_body]
    pub fn get(&self, key: &KeyType) -> (r: Option<&Record>)
        ensures r is Some <==> self@.contains_key(key@),
                r is Some ==> same_item(item_of(*r->Some_0), self@[key@]) { unimplemented!() }
    // exclusive guard: holds the shard lock while it lives, so writing through it is one atomic update
    #[verifier::external_body]
    pub fn get_mut(&mut self, key: &KeyType) -> (r: Option<&mut Record>)
        ensures r is Some <==> old(self)@.contains_key(key@),
                r is None ==> final(self)@ == old(self)@,
                r is Some ==> same_item(item_of(*r->Some_0), old(self)@[key@]),
                r is Some ==> final(self)@ =~= old(self)@.insert(key@, item_of(*final(r->Some_0))) { unimplemented!() }
    #[verifier::external_body]
    pub fn insert(&mut self, key: KeyType, value: Record) -> (r: Option<Record>)
        ensures final(self)@ =~= old(self)@.insert(key@, item_of(value)) { unimplemented!() }
    #[verifier::external_body]
    pub fn remove(&mut self, key: &KeyType) -> (r: Option<(KeyType, Record)>)
        ensures r is Some <==> old(self)@.contains_key(key@),
                r is Some ==> r->Some_0.0@ == key@ && same_item(item_of(r->Some_0.1), old(self)@[key@]),
                final(self)@ =~= old(self)@.remove(key@) { unimplemented!() }
    // remove_if(key, f): removes the entry iff it is present and f(key, value) is true - one atomic step
    #[verifier::external_body]
    pub fn remove_if<F: FnOnce(&KeyType, &Record) -> bool>(&mut self, key: &KeyType, f: F) -> (r: Option<(KeyType, Record)>)
        requires forall|k: &KeyType, v: &Record| stamped_ok(*v) ==> #[trigger] f.requires((k, v)),
        ensures
            !old(self)@.contains_key(key@) ==> r is None && final(self)@ == old(self)@,
            old(self)@.contains_key(key@) ==> exists|k: &KeyType, v: &Record, b: bool| k@ == key@ && stamped_ok(*v) && same_item(item_of(*v), old(self)@[key@]) && #[trigger] f.ensures((k, v), b)
                && (b ==> r is Some && same_item(item_of(r->Some_0.1), old(self)@[key@]) && final(self)@ =~= old(self)@.remove(key@))
                && (!b ==> r is None && final(self)@ == old(self)@),
    { unimplemented!() }
    #[verifier::external_body]
    pub fn clear(&mut self) ensures final(self)@ =~= Map::<Seq<u8>, Item>::empty() { unimplemented!() }
    #[verifier::external_body]
    pub fn len(&self) -> (r: usize) ensures r == self@.dom().len(), self@.dom().finite() { unimplemented!() }
    #[verifier::external_body]
    pub fn is_empty(&self) -> (r: bool) ensures r == (self@.dom().len() == 0), self@.dom().finite() { unimplemented!() }
    // alter_all(f): replaces every value v by f(k, v), visiting every entry exactly once
    #[verifier::external_body]
    pub fn alter_all<F: FnMut(&KeyType, Record) -> Record>(&mut self, f: F)
        requires forall|k: &KeyType, v: Record| #[trigger] f.requires((k, v)),
        ensures final(self)@.dom() =~= old(self)@.dom(),
                forall|kk: Seq<u8>| #[trigger] old(self)@.contains_key(kk) ==>
                    exists|k: &KeyType, v: Record, w: Record| k@ == kk && same_item(item_of(v), old(self)@[kk]) && f.ensures((k, v), w) && same_item(item_of(w), final(self)@[kk]) { unimplemented!() }
}
