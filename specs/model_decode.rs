// ---------------------------------------------------------------------------------------------
// Decoder-level specification (C09 C10 C12 C13): what decode must return for a pending stream.  Spec only.
// ---------------------------------------------------------------------------------------------
pub open spec fn st_none(c: MemcacheBinaryCodec) -> bool { c.state == RequestParserState::None }
pub open spec fn st_hdr(c: MemcacheBinaryCodec) -> bool { c.state == RequestParserState::HeaderParsed }

// `p` is the logical pending byte stream of the connection given the decoder state and its buffer:
// a header that has already been taken out of the buffer still belongs to it.
pub open spec fn pend(c: MemcacheBinaryCodec, buf: Seq<u8>, p: Seq<u8>) -> bool {
    if st_none(c) { buf =~= p }
    else {
        p.len() >= 24 && c.header == hdr_of(p) && buf =~= p.subrange(24, p.len() as int)
        && header_ok(c.header) && c.header.body_length <= c.item_size_limit
    }
}

// `r` is the request the complete frame (h, first n bytes of `before`) denotes, taken from exactly those bytes
// (expected_req looks only at the first h.body_length bytes of `before`)
pub open spec fn frame_taken(h: binary::RequestHeader, before: Seq<u8>, after: Seq<u8>, r: core::result::Result<Option<BinaryRequest>, io::Error>) -> bool {
    let n = h.body_length as int;
    &&& r is Ok
    &&& r->Ok_0 is Some
    &&& req_matches(r->Ok_0->Some_0, h, before)
    &&& after =~= before.subrange(n, before.len() as int)
}

// what parse_request must deliver for a complete frame whose header is `h`:
pub open spec fn body_post(h: binary::RequestHeader, before: Seq<u8>, after: Seq<u8>, r: core::result::Result<Option<BinaryRequest>, io::Error>) -> bool {
    if layout_ok(h) { frame_taken(h, before, after, r) }
    else if layout_lenient(h) { r is Err || frame_taken(h, before, after, r) }
    else { r is Err }
}

// what one body parser must deliver: as body_post, except that for a frame that does not fit the
// layout it may also return a request that visibly did not consume exactly the body (parse_request
// turns that into an error).
pub open spec fn parser_post(h: binary::RequestHeader, before: Seq<u8>, after: Seq<u8>, r: core::result::Result<Option<BinaryRequest>, io::Error>) -> bool {
    if layout_ok(h) { frame_taken(h, before, after, r) }
    else if layout_lenient(h) { r is Err || frame_taken(h, before, after, r) }
    else { r is Err || (r is Ok && r->Ok_0 is Some && after.len() != before.len() - h.body_length) }
}

pub open spec fn decode_post(p: Seq<u8>, limit: u32, r: core::result::Result<Option<BinaryRequest>, io::Error>, c: MemcacheBinaryCodec, buf: Seq<u8>) -> bool {
    match first_frame(p, limit) {
        FF::NeedMore => r is Ok && r->Ok_0 is None && pend(c, buf, p),
        FF::Invalid => r is Err,
        FF::TooLarge(h) => {
            &&& r is Ok
            &&& r->Ok_0 is Some
            &&& same_req(req_view(r->Ok_0->Some_0), too_large_req(h))
            &&& st_none(c)
            &&& buf =~= p.subrange(24, p.len() as int)
        },
        FF::Frame(h, b) => {
            ||| (!layout_ok(h) && r is Err)
            ||| {
                &&& r is Ok
                &&& r->Ok_0 is Some
                &&& req_matches(r->Ok_0->Some_0, h, b)
                &&& st_none(c)
                &&& buf =~= p.subrange(24 + h.body_length, p.len() as int)
            }
        },
    }
}

