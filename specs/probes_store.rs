// vacuity probes for the store / io / number stand-ins (probe mode only): each `assert(false)` MUST fail
fn probe_standin_storage(m: &mut Storage, k: KeyType, r: Record) {
    let a = m.len(); let e = m.is_empty();
    let o = m.insert(k.clone(), r);
    let g = m.remove(&k);
    m.clear();
    proof { assert(false); } // @ob PROBE probe.standin.storage.ops
}
fn probe_standin_storage_get(m: &mut Storage, k: KeyType) {
    match m.get(&k) { Some(r) => { let c = r.clone(); }, None => {} }
    proof { assert(false); } // @ob PROBE probe.standin.storage.get
}
fn probe_standin_storage_get_mut(m: &mut Storage, k: KeyType, r: Record) {
    match m.get_mut(&k) { Some(g) => { *g = r; }, None => {} }
    proof { assert(false); } // @ob PROBE probe.standin.storage.get_mut
}
fn probe_standin_atomic(a: &mut AtomicU64) {
    let x = a.fetch_add(1, Ordering::Release); let y = a.fetch_sub(1, Ordering::Release); let z = a.load(Ordering::Acquire); let w = a.fetch_max(5, Ordering::AcqRel);
    proof { assert(false); } // @ob PROBE probe.standin.atomic
}
fn probe_standin_timer(t: &TimerS) {
    let x = t.timestamp();
    proof { assert(false); } // @ob PROBE probe.standin.timer
}
fn probe_standin_socket(s: &mut TcpStream, b: &mut BytesMut, d: &[u8]) requires !old(s).shut() {
    let r = s.read_buf(b);
    let w = s.write_all(d);
    let x = s.shutdown();
    proof { assert(false); } // @ob PROBE probe.standin.socket
}
fn probe_standin_numbers(s: &str, b: &[u8], v: u64) {
    let p = parse_u64(s); let t = u64_to_string(v); let u = str::from_utf8(b); let by = Bytes::from(t);
    proof { assert(false); } // @ob PROBE probe.standin.numbers
}
fn probe_standin_timeout(x: u32) {
    let d = Duration::from_secs(3); let r = timeout(d, x); let m = Ord::min(1usize, 2usize);
    proof { assert(false); } // @ob PROBE probe.standin.timeout_min
}
proof fn probe_axioms(s: store::MemcStore) {
    client_handler::axiom_environment(s); axiom_version_short();
    assert(false); // @ob PROBE probe.axioms
}
