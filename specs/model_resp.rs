// ---------------------------------------------------------------------------------------------
// Response-level vocabulary (C11): protocol status codes and error texts.
// ---------------------------------------------------------------------------------------------
pub open spec fn error_str(e: CacheError) -> &'static str {
    match e {
        CacheError::NotFound => "Not found",
        CacheError::KeyExists => "Key exists",
        CacheError::ValueTooLarge => "Value too big",
        CacheError::InvalidArguments => "Invalid arguments",
        CacheError::ItemNotStored => "Item not stored",
        CacheError::ArithOnNonNumeric => "Incr/Decr on non numeric value",
        CacheError::UnkownCommand => "Invalid command",
        CacheError::OutOfMemory => "Out of memory",
        CacheError::NotSupported => "Not supported",
        CacheError::InternalError => "Internal error",
        CacheError::Busy => "Busy",
        CacheError::TemporaryFailure => "Temporary failure",
    }
}
// protocol status of an error (binary protocol table)
pub open spec fn error_code(e: CacheError) -> u16 {
    match e {
        CacheError::NotFound => 0x01,
        CacheError::KeyExists => 0x02,
        CacheError::ValueTooLarge => 0x03,
        CacheError::InvalidArguments => 0x04,
        CacheError::ItemNotStored => 0x05,
        CacheError::ArithOnNonNumeric => 0x06,
        CacheError::UnkownCommand => 0x81,
        CacheError::OutOfMemory => 0x82,
        CacheError::NotSupported => 0x83,
        CacheError::InternalError => 0x84,
        CacheError::Busy => 0x85,
        CacheError::TemporaryFailure => 0x86,
    }
}

// the message as the bytes the encoder puts on the wire
pub open spec fn error_text(e: CacheError) -> Seq<u8> { error_str(e).spec_bytes() }

// every message of the table is short ASCII, so its length fits the u32 body_length field (C11)
pub proof fn lemma_error_text_short(e: CacheError) // @ob C11 lemma.error_text_short
    ensures error_str(e).is_ascii(), error_text(e).len() == error_str(e)@.len(), error_text(e).len() <= 30,
{
    match e {
        CacheError::NotFound => { reveal_strlit("Not found"); assert("Not found".is_ascii()); },
        CacheError::KeyExists => { reveal_strlit("Key exists"); assert("Key exists".is_ascii()); },
        CacheError::ValueTooLarge => { reveal_strlit("Value too big"); assert("Value too big".is_ascii()); },
        CacheError::InvalidArguments => { reveal_strlit("Invalid arguments"); assert("Invalid arguments".is_ascii()); },
        CacheError::ItemNotStored => { reveal_strlit("Item not stored"); assert("Item not stored".is_ascii()); },
        CacheError::ArithOnNonNumeric => { reveal_strlit("Incr/Decr on non numeric value"); assert("Incr/Decr on non numeric value".is_ascii()); },
        CacheError::UnkownCommand => { reveal_strlit("Invalid command"); assert("Invalid command".is_ascii()); },
        CacheError::OutOfMemory => { reveal_strlit("Out of memory"); assert("Out of memory".is_ascii()); },
        CacheError::NotSupported => { reveal_strlit("Not supported"); assert("Not supported".is_ascii()); },
        CacheError::InternalError => { reveal_strlit("Internal error"); assert("Internal error".is_ascii()); },
        CacheError::Busy => { reveal_strlit("Busy"); assert("Busy".is_ascii()); },
        CacheError::TemporaryFailure => { reveal_strlit("Temporary failure"); assert("Temporary failure".is_ascii()); },
    }
}
