// ---------------------------------------------------------------------------------------------
// Response-level vocabulary (C11): protocol status codes and error texts.
// ---------------------------------------------------------------------------------------------
pub open spec fn error_text(e: CacheError) -> Seq<char> {
    match e {
        CacheError::NotFound => "Not found"@,
        CacheError::KeyExists => "Key exists"@,
        CacheError::ValueTooLarge => "Value too big"@,
        CacheError::InvalidArguments => "Invalid arguments"@,
        CacheError::ItemNotStored => "Item not stored"@,
        CacheError::ArithOnNonNumeric => "Incr/Decr on non numeric value"@,
        CacheError::UnkownCommand => "Invalid command"@,
        CacheError::OutOfMemory => "Out of memory"@,
        CacheError::NotSupported => "Not supported"@,
        CacheError::InternalError => "Internal error"@,
        CacheError::Busy => "Busy"@,
        CacheError::TemporaryFailure => "Temporary failure"@,
    }
}
// protocol status of an error (binary protocol table)
pub open spec fn error_code(e: CacheError) -> u16 {
    match e {
        CacheError::NotFound => 0x01,
        CacheError::KeyExists => 0x02,
        CacheError::ValueTooLarge => 0x03,
        CacheError::InvalidArguments => 0x04,
        CacheError::ItemNotStored => 0x05,
        CacheError::ArithOnNonNumeric => 0x06,
        CacheError::UnkownCommand => 0x81,
        CacheError::OutOfMemory => 0x82,
        CacheError::NotSupported => 0x83,
        CacheError::InternalError => 0x84,
        CacheError::Busy => 0x85,
        CacheError::TemporaryFailure => 0x86,
    }
}
