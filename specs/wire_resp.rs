// ---------------------------------------------------------------------------------------------
// Wire form of responses (C11).  Spec only.
// ---------------------------------------------------------------------------------------------
pub open spec fn b16(x: u16, i: int) -> u8 { if i == 0 { (x / 256) as u8 } else { (x % 256) as u8 } }
pub open spec fn b32(x: u32, i: int) -> u8 {
    if i == 0 { (x / 16777216) as u8 } else if i == 1 { ((x / 65536) % 256) as u8 } else if i == 2 { ((x / 256) % 256) as u8 } else { (x % 256) as u8 }
}
pub open spec fn hdr_bytes(h: binary::ResponseHeader) -> Seq<u8> {
    seq![h.magic, h.opcode, b16(h.key_length, 0), b16(h.key_length, 1), h.extras_length, h.data_type, b16(h.status, 0), b16(h.status, 1),
         b32(h.body_length, 0), b32(h.body_length, 1), b32(h.body_length, 2), b32(h.body_length, 3),
         b32(h.opaque, 0), b32(h.opaque, 1), b32(h.opaque, 2), b32(h.opaque, 3),
         b32((h.cas / 4294967296) as u32, 0), b32((h.cas / 4294967296) as u32, 1), b32((h.cas / 4294967296) as u32, 2), b32((h.cas / 4294967296) as u32, 3),
         b32((h.cas % 4294967296) as u32, 0), b32((h.cas % 4294967296) as u32, 1), b32((h.cas % 4294967296) as u32, 2), b32((h.cas % 4294967296) as u32, 3)]
}
// the bytes that follow the header, per response variant
pub open spec fn payload_bytes(r: BinaryResponse) -> Seq<u8> {
    match r {
        BinaryResponse::Error(x) => x.error.spec_bytes(),
        BinaryResponse::Get(x) => enc32(x.flags) + x.key@ + x.value@,
        BinaryResponse::GetQuietly(x) => enc32(x.flags) + x.key@ + x.value@,
        BinaryResponse::GetKey(x) => enc32(x.flags) + x.key@ + x.value@,
        BinaryResponse::GetKeyQuietly(x) => enc32(x.flags) + x.key@ + x.value@,
        BinaryResponse::Version(x) => string_bytes(x.version),
        BinaryResponse::Increment(x) => enc64(x.value),
        BinaryResponse::Decrement(x) => enc64(x.value),
        _ => Seq::empty(),
    }
}
pub open spec fn wire_bytes(r: BinaryResponse) -> Seq<u8> { hdr_bytes(resp_header(r)) + payload_bytes(r) }
