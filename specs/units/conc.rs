// Unit conc: the same bodies of memory_store/store.rs and cache/cache.rs as unit server, verified against the
// INTERFERENCE prelude (every map call is one atomic step; the map is arbitrary between steps) - C03.
#![allow(unused_imports, dead_code, unused_variables, unused_mut, unused_assignments, non_snake_case, non_upper_case_globals)]
use vstd::prelude::*;
use vstd::string::*;
verus! {

//@include prelude_std.rs
//@include prelude_bytes.rs
//@items cache/cache.rs | type KeyType, type ValueType
//@items cache/cache.rs | struct CacheMetaData, struct SetStatus
//@items cache/cache.rs | struct Record | dropderive=Clone
impl Clone for Record {
    #[verifier::external_body]
    fn clone(&self) -> (r: Record)
        ensures r.header == self.header, r.value@ == self.value@
    { unimplemented!() }
}
//@items cache/error.rs | enum CacheError, type Result
impl CacheMetaData {
//@fn cache/cache.rs | impl CacheMetaData | new | ret=r | safety=C10
    ensures
        r.timestamp == 0 && r.cas == cas && r.flags == flags && r.time_to_live == time_to_live, // @ob C04 conc.meta.new.fields
//@endfn
//@fn cache/cache.rs | impl CacheMetaData | get_expiration | ret=r | safety=C10
    ensures
        r == self.time_to_live, // @ob C04 conc.meta.get_expiration.exact
//@endfn
}
impl Record {
//@fn cache/cache.rs | impl Record | new | ret=r | safety=C10
    ensures
        r.value@ == value@ && r.header.cas == cas && r.header.flags == flags && r.header.time_to_live == expiration && r.header.timestamp == 0, // @ob C04 conc.record.new.fields
//@endfn
}
// Record == Record is what /repo's `impl PartialEq for Record` says (at the time of writing: the VALUE bytes only - flags,
// CAS and expiry do not take part).  The impl is extracted and checked against this spec; the obligation carries the
// pseudo-property ALL: if it fails, every contract that mentions `==` on records has lost its meaning and every
// property of the unit is undecided (never a violation by itself).
impl vstd::std_specs::cmp::PartialEqSpecImpl for Record {
    open spec fn obeys_eq_spec() -> bool { true }
    open spec fn eq_spec(&self, other: &Record) -> bool { self.value@ == other.value@ }
}
impl PartialEq for Record {
//@fn cache/cache.rs | impl PartialEq for Record | eq | ret=r | safety=ALL
    ensures
        r == (self.value@ == other.value@), // @ob ALL record.eq.value_bytes_only
//@endfn
}

//@include model.rs
//@include prelude_conc.rs
//@include prelude_num.rs
//@include model_lin.rs

pub trait CacheImplDetails {
    spec fn log(&self) -> Seq<Access>;
    spec fn now(&self) -> u64;

    // one access: a read
    fn get_by_key(&mut self, key: &KeyType) -> (r: Result<Record>)
        ensures
            final(self).now() == old(self).now() && extends(old(self).log(), final(self).log()), // @ob C03 conc.get_by_key.frame
            new_accesses(old(self).log(), final(self).log()).len() == 1, // @ob C03,C16 conc.get_by_key.one_access
            ({ let a = new_accesses(old(self).log(), final(self).log())[0];
               a.post == a.pre && (r is Ok <==> a.pre.contains_key(key@)) && (r is Ok ==> same_item(item_of(r->Ok_0), a.pre[key@]) && stamped_ok(r->Ok_0))
               && (r is Err ==> r->Err_0 == CacheError::NotFound) }); // @ob C03 conc.get_by_key.reads_current

    // decides expiry from the record it was handed; if it collects, the collection must not undo anything another
    // thread has stored in the meantime (C03: "an acknowledged store is never undone by a concurrent retrieval,
    // including one that is collecting an expired predecessor of that item")
    fn check_if_expired(&mut self, key: &KeyType, record: &Record) -> (r: bool)
        requires stamped_ok(*record),
        ensures
            final(self).now() == old(self).now() && extends(old(self).log(), final(self).log()), // @ob C03 conc.check_if_expired.frame
            r == !live(item_of(*record), old(self).now()), // @ob C05,C03 conc.check_if_expired.exact
            new_accesses(old(self).log(), final(self).log()).len() <= 1, // @ob C03,C16 conc.check_if_expired.at_most_one_access
            new_accesses(old(self).log(), final(self).log()).len() == 1 ==> noop(new_accesses(old(self).log(), final(self).log())[0], old(self).now()); // @ob C03 conc.check_if_expired.collect_is_noop
}

pub trait Cache: CacheImplDetails {
//@fn cache/cache.rs | trait Cache | get | ret=r | mutself | safety=C10,C03
        ensures
            final(self).now() == old(self).now() && extends(old(self).log(), final(self).log()), // @ob C03 conc.cache_get.frame
            one_lp(new_accesses(old(self).log(), final(self).log()), |a: Access| lin_get(a, old(self).now(), key@, r), old(self).now()), // @ob C03 conc.cache_get.linearizable
//@endfn
}

//@consts memory_store/store.rs | -
//@consts cache/cache.rs | -
//@fields memory_store/store.rs | struct MemoryStore | memory,timer,cas_id
pub struct MemoryStore {
    pub memory: Storage,
    pub timer: TimerS,
    pub cas_id: AtomicU64,
}

impl MemoryStore {
//@fn memory_store/store.rs | impl MemoryStore | get_cas_id | ret=r | mutself | safety=C10
    ensures
        final(self).memory == old(self).memory && final(self).timer == old(self).timer, // @ob C03 conc.get_cas_id.touches_no_map
//@endfn
}

impl CacheImplDetails for MemoryStore {
    open spec fn log(&self) -> Seq<Access> { self.memory.log() }
    open spec fn now(&self) -> u64 { self.timer.now() }
//@fn memory_store/store.rs | impl impl_details::CacheImplDetails for MemoryStore | get_by_key | ret=r | mutself | safety=C10
//@endfn
//@fn memory_store/store.rs | impl impl_details::CacheImplDetails for MemoryStore | check_if_expired | ret=r | mutself | safety=C10
//@closure 0 | |_key: &KeyType, stored: &Record| -> (b: bool)
            requires stamped_ok(*stored),
            ensures b == !live(item_of(*stored), current_time), // @ob C05,C03 check_if_expired.removes_only_expired
//@endfn
}
impl Cache for MemoryStore {
}

impl MemoryStore {
//@fn memory_store/store.rs | impl Cache for MemoryStore | remove | ret=r | mutself | safety=C10
    ensures
        final(self).timer == old(self).timer, // @ob C03 conc.remove.frame
        final(self).memory.log() == old(self).memory.log().push(Access { pre: old(self).memory.cur(), post: old(self).memory.cur().remove(key@) }), // @ob C03,C16 conc.remove.one_access
//@endfn

//@fn memory_store/store.rs | impl Cache for MemoryStore | set | ret=r | mutself | safety=C10,C03 | inline=get_cas_id
    requires
        record.header.cas < 0xffff_ffff_ffff_ffff,
    ensures
        final(self).timer == old(self).timer && extends(old(self).memory.log(), final(self).memory.log()), // @ob C03 conc.set.frame
        // C03: a store takes effect in one atomic step, whatever other threads do around it.
        // (1) unconditional stores and CAS stores that find the key present
        (record.header.cas == 0 || new_accesses(old(self).memory.log(), final(self).memory.log())[0].pre.contains_key(key@)) ==>
            one_lp(new_accesses(old(self).memory.log(), final(self).memory.log()),
               |a: Access| lin_set(a, old(self).timer.now(), key@, record.value@, record.header.flags, record.header.time_to_live, record.header.cas, r), old(self).timer.now()), // @ob C03 conc.set.linearizable_unconditional_or_present
        // (2) in every case, including a CAS store that finds the key absent
        one_lp(new_accesses(old(self).memory.log(), final(self).memory.log()),
               |a: Access| lin_set(a, old(self).timer.now(), key@, record.value@, record.header.flags, record.header.time_to_live, record.header.cas, r), old(self).timer.now()), // @ob C03 conc.set.linearizable
        new_accesses(old(self).memory.log(), final(self).memory.log()).len() >= 1, // @ob C03 conc.set.at_least_one_access
//@endfn
}

// ---- C04: memcache/store.rs over a store whose get/set/delete are atomic steps (C03) -------------------
pub mod memc_conc {
    use vstd::prelude::*;
    use super::*;
    use super::{CacheMetaData as CacheMeta, KeyType as CacheKeyType, Record as CacheRecord, SetStatus as CacheSetStatus};
//@consts memcache/store.rs | -
//@items memcache/store.rs | type Record, type Meta, type SetStatus, type KeyType, struct DeltaParam, type IncrementParam, type DecrementParam, type DeltaResultValueType, struct DeltaResult

    // ASSUMED stand-in for `Arc<dyn Cache + Send + Sync>`: every call is one atomic step on the observable
    // content as it is at that moment (C03 for MemoryStore), after which other clients may do anything.
    #[verifier::external_body]
    pub struct AtomicCache { _p: core::marker::PhantomData<u8> }
    impl AtomicCache {
        pub uninterp spec fn cur(&self) -> CView;
        pub uninterp spec fn log(&self) -> Seq<Access>;
        pub uninterp spec fn now(&self) -> u64;
        #[verifier::external_body]
        pub fn get(&mut self, key: &KeyType) -> (r: Result<Record>)
            ensures final(self).now() == old(self).now(),
                    exists|post: CView| #[trigger] same_observations(old(self).cur(), post, old(self).now())
                        && final(self).log() == old(self).log().push(Access { pre: old(self).cur(), post }),
                    match lookup(old(self).cur(), old(self).now(), key@) {
                        Some(i) => r is Ok && same_item(item_of(r->Ok_0), i),
                        None => r is Err && r->Err_0 == CacheError::NotFound,
                    }
        { unimplemented!() }
        #[verifier::external_body]
        pub fn set(&mut self, key: KeyType, record: Record) -> (r: Result<SetStatus>)
            ensures final(self).now() == old(self).now(),
                    exists|post: CView| final(self).log() == old(self).log().push(Access { pre: old(self).cur(), post })
                        && #[trigger] lin_set(Access { pre: old(self).cur(), post }, old(self).now(), key@, record.value@, record.header.flags, record.header.time_to_live, record.header.cas, r),
        { unimplemented!() }
    }

//@fields memcache/store.rs | struct MemcStore | store
    pub struct MemcStore { pub store: AtomicCache }

    impl MemcStore {
//@fn memcache/store.rs | impl MemcStore | set | ret=r | mutself | safety=C10
            ensures
                final(self).store.now() == old(self).store.now() && extends(old(self).store.log(), final(self).store.log()), // @ob C04 memc_conc.set.frame
                new_accesses(old(self).store.log(), final(self).store.log()).len() == 1, // @ob C04 memc_conc.set.one_step
//@endfn
//@fn memcache/store.rs | impl MemcStore | get | ret=r | mutself | safety=C10
            ensures
                final(self).store.now() == old(self).store.now() && extends(old(self).store.log(), final(self).store.log()), // @ob C04 memc_conc.get.frame
                new_accesses(old(self).store.log(), final(self).store.log()).len() == 1, // @ob C04 memc_conc.get.one_step
//@endfn
//@fn memcache/store.rs | impl MemcStore | add | ret=r | mutself | safety=C10
            ensures
                extends(old(self).store.log(), final(self).store.log()), // @ob C04 memc_conc.add.frame
                one_lp(new_accesses(old(self).store.log(), final(self).store.log()), |a: Access| lin_add(a, old(self).store.now(), key@, record, r), old(self).store.now()), // @ob C04 memc_conc.add.atomic
//@endfn
//@fn memcache/store.rs | impl MemcStore | replace | ret=r | mutself | safety=C10
            ensures
                extends(old(self).store.log(), final(self).store.log()), // @ob C04 memc_conc.replace.frame
                one_lp(new_accesses(old(self).store.log(), final(self).store.log()), |a: Access| lin_replace(a, old(self).store.now(), key@, record, r), old(self).store.now()), // @ob C04 memc_conc.replace.atomic
//@endfn
//@fn memcache/store.rs | impl MemcStore | append | ret=r | mutself | safety=C10
            ensures
                extends(old(self).store.log(), final(self).store.log()), // @ob C04 memc_conc.append.frame
                one_lp(new_accesses(old(self).store.log(), final(self).store.log()), |a: Access| lin_concat(false, a, old(self).store.now(), key@, new_record, r), old(self).store.now()), // @ob C04 memc_conc.append.atomic
//@endfn
//@fn memcache/store.rs | impl MemcStore | prepend | ret=r | mutself | safety=C10
            ensures
                extends(old(self).store.log(), final(self).store.log()), // @ob C04 memc_conc.prepend.frame
                one_lp(new_accesses(old(self).store.log(), final(self).store.log()), |a: Access| lin_concat(true, a, old(self).store.now(), key@, new_record, r), old(self).store.now()), // @ob C04 memc_conc.prepend.atomic
//@endfn

//@fn memcache/store.rs | impl MemcStore | increment | ret=r | mutself | safety=C10
            ensures
                extends(old(self).store.log(), final(self).store.log()), // @ob C04 memc_conc.increment.frame
//@endfn
//@fn memcache/store.rs | impl MemcStore | decrement | ret=r | mutself | safety=C10
            ensures
                extends(old(self).store.log(), final(self).store.log()), // @ob C04 memc_conc.decrement.frame
//@endfn
//@fn memcache/store.rs | impl MemcStore | add_delta | ret=r | mutself | safety=C10 | chainrw | resub=([A-Za-z_][A-Za-z0-9_]*)\s*\.parse::<u64>\(\)=>parse_u64(\1) | resub=([A-Za-z_][A-Za-z0-9_.]*)\.to_string\(\)=>u64_to_string(\1)
            ensures
                extends(old(self).store.log(), final(self).store.log()), // @ob C04 memc_conc.add_delta.frame
                one_lp(new_accesses(old(self).store.log(), final(self).store.log()),
                       |a: Access| lin_delta(increment, a, old(self).store.now(), key@, delta.delta, delta.value, header.time_to_live == 0xffff_ffffu32, r is Ok, if r is Ok { r->Ok_0.value } else { 0 }), old(self).store.now()), // @ob C04 memc_conc.add_delta.atomic
//@endfn
    }
}

} // verus!
fn main() {}
