// Unit codec_dec: the decoder half of memcrs/src/protocol/binary_codec.rs under contract.
// Everything between //@fn and //@endfn is annotation; function text comes from /repo on every run.
#![allow(unused_imports, dead_code, unused_variables, unused_mut, unused_assignments, non_snake_case)]
use vstd::prelude::*;
use vstd::string::*;
verus! {

//@include prelude_std.rs
//@include prelude_bytes.rs

pub mod binary {
    use vstd::prelude::*;
    use super::Bytes;
//@items protocol/binary.rs | * *
}

// R5/R7 stand-in for num_traits::FromPrimitive (the derive on binary::Command).  ASSUMED: the derive returns the
// variant whose discriminant equals n (first match in declaration order); the discriminants themselves come from the
// extracted enum, so renaming or renumbering variants in /repo is seen by every contract that goes through from_u8.
pub trait FromPrimitive: Sized { fn from_u8(n: u8) -> (r: Option<Self>); }
pub open spec fn command_of(n: u8) -> Option<binary::Command> {
    // what #[derive(FromPrimitive)] generates: the variant whose discriminant (taken from the extracted enum) equals n
    if n == binary::Command::Get as u8 { Some(binary::Command::Get) }
    else if n == binary::Command::Set as u8 { Some(binary::Command::Set) }
    else if n == binary::Command::Add as u8 { Some(binary::Command::Add) }
    else if n == binary::Command::Replace as u8 { Some(binary::Command::Replace) }
    else if n == binary::Command::Delete as u8 { Some(binary::Command::Delete) }
    else if n == binary::Command::Increment as u8 { Some(binary::Command::Increment) }
    else if n == binary::Command::Decrement as u8 { Some(binary::Command::Decrement) }
    else if n == binary::Command::Quit as u8 { Some(binary::Command::Quit) }
    else if n == binary::Command::Flush as u8 { Some(binary::Command::Flush) }
    else if n == binary::Command::GetQuiet as u8 { Some(binary::Command::GetQuiet) }
    else if n == binary::Command::Noop as u8 { Some(binary::Command::Noop) }
    else if n == binary::Command::Version as u8 { Some(binary::Command::Version) }
    else if n == binary::Command::GetKey as u8 { Some(binary::Command::GetKey) }
    else if n == binary::Command::GetKeyQuiet as u8 { Some(binary::Command::GetKeyQuiet) }
    else if n == binary::Command::Append as u8 { Some(binary::Command::Append) }
    else if n == binary::Command::Prepend as u8 { Some(binary::Command::Prepend) }
    else if n == binary::Command::Stat as u8 { Some(binary::Command::Stat) }
    else if n == binary::Command::SetQuiet as u8 { Some(binary::Command::SetQuiet) }
    else if n == binary::Command::AddQuiet as u8 { Some(binary::Command::AddQuiet) }
    else if n == binary::Command::ReplaceQuiet as u8 { Some(binary::Command::ReplaceQuiet) }
    else if n == binary::Command::DeleteQuiet as u8 { Some(binary::Command::DeleteQuiet) }
    else if n == binary::Command::IncrementQuiet as u8 { Some(binary::Command::IncrementQuiet) }
    else if n == binary::Command::DecrementQuiet as u8 { Some(binary::Command::DecrementQuiet) }
    else if n == binary::Command::QuitQuiet as u8 { Some(binary::Command::QuitQuiet) }
    else if n == binary::Command::FlushQuiet as u8 { Some(binary::Command::FlushQuiet) }
    else if n == binary::Command::AppendQuiet as u8 { Some(binary::Command::AppendQuiet) }
    else if n == binary::Command::PrependQuiet as u8 { Some(binary::Command::PrependQuiet) }
    else if n == binary::Command::Touch as u8 { Some(binary::Command::Touch) }
    else if n == binary::Command::GetAndTouch as u8 { Some(binary::Command::GetAndTouch) }
    else if n == binary::Command::GetAndTouchQuiet as u8 { Some(binary::Command::GetAndTouchQuiet) }
    else if n == binary::Command::SaslListMechs as u8 { Some(binary::Command::SaslListMechs) }
    else if n == binary::Command::SaslAuth as u8 { Some(binary::Command::SaslAuth) }
    else if n == binary::Command::SaslStep as u8 { Some(binary::Command::SaslStep) }
    else if n == binary::Command::GetAndTouchKey as u8 { Some(binary::Command::GetAndTouchKey) }
    else if n == binary::Command::GetAndTouchKeyQuiet as u8 { Some(binary::Command::GetAndTouchKeyQuiet) }
    else if n == binary::Command::OpCodeMax as u8 { Some(binary::Command::OpCodeMax) }
    else { None }
}
impl FromPrimitive for binary::Command {
    #[verifier::external_body]
    fn from_u8(n: u8) -> (r: Option<binary::Command>)
        ensures r == command_of(n)
    { unimplemented!() }
}

//@consts protocol/binary_codec.rs | -
//@items protocol/binary_codec.rs | enum BinaryRequest, enum RequestParserState, struct MemcacheBinaryCodec

//@include wire.rs

//@include model_decode.rs
//@include lemmas/framing.rs

impl MemcacheBinaryCodec {
//@consts protocol/binary_codec.rs | impl MemcacheBinaryCodec

//@fn protocol/binary_codec.rs | impl MemcacheBinaryCodec | new | ret=r | safety=C10
//@contract codec_new.contract
//@endfn

//@fn protocol/binary_codec.rs | impl MemcacheBinaryCodec | init_parser | safety=C10
    ensures
        st_none(*final(self)), // @ob C09 init_parser.state_none
        final(self).item_size_limit == old(self).item_size_limit, // @ob C13 init_parser.limit_kept
//@endfn

//@fn protocol/binary_codec.rs | impl MemcacheBinaryCodec | parse_header | ret=r | safety=C10,C09,C12,C19
    ensures
        final(self).item_size_limit == old(self).item_size_limit, // @ob C13 parse_header.limit_kept
        old(src)@.len() < 24 ==> r is Err, // @ob C10 parse_header.short_is_err
        old(src)@.len() >= 24 ==> final(self).header == hdr_of(old(src)@), // @ob C09,C10 parse_header.fields_big_endian
        old(src)@.len() >= 24 ==> final(src)@ == old(src)@.subrange(24, old(src)@.len() as int), // @ob C09 parse_header.consumes_24
        old(src)@.len() >= 24 ==> st_hdr(*final(self)), // @ob C09 parse_header.state
        old(src)@.len() >= 24 ==> (r is Ok <==> header_ok(final(self).header)), // @ob C10 parse_header.rejects_bad_header
        // C10 memory: buffer space is requested only for a body that is within the item size limit
        final(src).cap() <= old(src).cap() || final(src).cap() <= final(src)@.len() + old(self).item_size_limit, // @ob C10 parse_header.reserve_within_limit
//@endfn

//@fn protocol/binary_codec.rs | impl MemcacheBinaryCodec | header_valid | ret=r | safety=C10
    ensures
        r == header_ok(self.header), // @ob C10 header_valid.exact
//@endfn

//@fn protocol/binary_codec.rs | impl MemcacheBinaryCodec | parse_request | ret=r | safety=C10,C09,C12,C19
    ensures
        final(self).item_size_limit == old(self).item_size_limit, // @ob C13 parse_request.limit_kept
        !st_hdr(*old(self)) ==> r is Err, // @ob C10 parse_request.needs_header
        (st_hdr(*old(self)) && old(self).header.body_length <= old(self).item_size_limit && old(src)@.len() < old(self).header.body_length) ==> r is Err, // @ob C09 parse_request.incomplete_is_err
        (st_hdr(*old(self)) && old(self).header.body_length <= old(self).item_size_limit && old(src)@.len() >= old(self).header.body_length)
            ==> body_post(old(self).header, old(src)@, final(src)@, r), // @ob C09,C10,C12,C18,C19 parse_request.frame_exact
        (st_hdr(*old(self)) && old(self).header.body_length <= old(self).item_size_limit && old(src)@.len() >= old(self).header.body_length)
            ==> st_none(*final(self)), // @ob C09 parse_request.resets_state
//@endfn

//@fn protocol/binary_codec.rs | impl MemcacheBinaryCodec | get_value_len | ret=r | safety=C10
    requires
        self.header.key_length <= 250,
        self.header.extras_length <= 20,
        self.header.body_length >= self.header.key_length + self.header.extras_length,
    ensures
        r == self.header.body_length - self.header.key_length - self.header.extras_length, // @ob C09 get_value_len.exact
//@endfn

//@fn protocol/binary_codec.rs | impl MemcacheBinaryCodec | parse_get_request | ret=r | safety=C10,C09,C12,C19
    requires
        op_get_class(self.header.opcode),
        old(src)@.len() >= self.header.body_length,
    ensures
        parser_post(self.header, old(src)@, final(src)@, r), // @ob C09,C10,C01,C19,C12,C18 parse_get_request.frame_exact
//@endfn

//@fn protocol/binary_codec.rs | impl MemcacheBinaryCodec | parse_delete_request | ret=r | safety=C10,C09,C12,C19
    requires
        op_delete_class(self.header.opcode),
        old(src)@.len() >= self.header.body_length,
    ensures
        parser_post(self.header, old(src)@, final(src)@, r), // @ob C09,C10,C08,C19,C12,C18,C02 parse_delete_request.frame_exact
//@endfn

//@fn protocol/binary_codec.rs | impl MemcacheBinaryCodec | parse_header_only_request | ret=r | safety=C10,C09,C12,C19
    requires
        op_header_only_class(self.header.opcode),
        old(src)@.len() >= self.header.body_length,
    ensures
        parser_post(self.header, old(src)@, final(src)@, r), // @ob C09,C10,C12,C18,C19 parse_header_only_request.frame_exact
//@endfn

//@fn protocol/binary_codec.rs | impl MemcacheBinaryCodec | parse_not_supported_request | ret=r | safety=C10,C09,C12,C19
    requires
        op_unimplemented(self.header.opcode),
        old(src)@.len() >= self.header.body_length,
    ensures
        parser_post(self.header, old(src)@, final(src)@, r), // @ob C09,C10,C12,C18,C19 parse_not_supported_request.frame_exact
//@endfn

//@fn protocol/binary_codec.rs | impl MemcacheBinaryCodec | parse_flush_request | ret=r | safety=C10,C09,C12,C19
    requires
        op_flush_class(self.header.opcode),
        old(src)@.len() >= self.header.body_length,
    ensures
        parser_post(self.header, old(src)@, final(src)@, r), // @ob C09,C10,C08,C19,C12,C18,C05 parse_flush_request.frame_exact
//@endfn

//@fn protocol/binary_codec.rs | impl MemcacheBinaryCodec | parse_append_prepend_request | ret=r | safety=C10,C09,C12,C19
    requires
        op_append_class(self.header.opcode),
        old(src)@.len() >= self.header.body_length,
    ensures
        parser_post(self.header, old(src)@, final(src)@, r), // @ob C09,C10,C06,C19,C01,C12,C18,C02 parse_append_prepend_request.frame_exact
//@endfn

//@fn protocol/binary_codec.rs | impl MemcacheBinaryCodec | parse_inc_dec_request | ret=r | safety=C10,C09,C12,C19
    requires
        op_incdec_class(self.header.opcode),
        old(src)@.len() >= self.header.body_length,
    ensures
        parser_post(self.header, old(src)@, final(src)@, r), // @ob C09,C10,C07,C19,C12,C18,C05 parse_inc_dec_request.frame_exact
//@endfn

//@fn protocol/binary_codec.rs | impl MemcacheBinaryCodec | parse_item_too_large | ret=r | safety=C10,C09,C12,C19
    ensures
        r is Ok && r->Ok_0 is Some && same_req(req_view(r->Ok_0->Some_0), too_large_req(self.header)), // @ob C13 parse_item_too_large.header_only
        final(_src)@ == old(_src)@, // @ob C13 parse_item_too_large.buffer_untouched
//@endfn

//@fn protocol/binary_codec.rs | impl MemcacheBinaryCodec | parse_set_request | ret=r | safety=C10,C09,C12,C19
    requires
        op_set_class(self.header.opcode),
        old(src)@.len() >= self.header.body_length,
    ensures
        parser_post(self.header, old(src)@, final(src)@, r), // @ob C09,C10,C01,C06,C19,C12,C18,C02,C05 parse_set_request.frame_exact
//@endfn

//@fn protocol/binary_codec.rs | impl MemcacheBinaryCodec | request_valid | ret=r | safety=C10
    ensures
        r == general_ok(self.header, key_required), // @ob C10 request_valid.exact
        final(_src)@ == old(_src)@, // @ob C09 request_valid.buffer_untouched
//@endfn
}

pub trait Decoder {
    type Item;
    type Error;
    fn decode(&mut self, src: &mut BytesMut) -> Result<Option<Self::Item>, Self::Error>;
}

impl MemcacheBinaryCodec {
    // The body of `impl Decoder for MemcacheBinaryCodec::decode` (R8: the tokio_util trait is a pure
    // interface; its method is verified here as an inherent method with the same signature).
//@fn protocol/binary_codec.rs | impl Decoder for MemcacheBinaryCodec | decode | ret=r | safety=C10
//@contract decode.contract
//@endfn
}

//@closed protocol/binary_codec.rs | impl Decoder for MemcacheBinaryCodec

//@probeinclude probes_bytes.rs

} // verus!
fn main() {}
