// Unit server: memory_store/store.rs, cache/cache.rs (trait default get), memcache/store.rs,
// memcache_server/handler.rs and the request/response types, under contract (sequential prelude).
#![allow(unused_imports, dead_code, unused_variables, unused_mut, unused_assignments, non_snake_case, non_upper_case_globals)]
use vstd::prelude::*;
verus! {

//@include prelude_std.rs
//@include prelude_bytes.rs

// ---- cache/cache.rs, cache/error.rs : plain data (R10) ------------------------------------------
//@items cache/cache.rs | type KeyType, type ValueType
//@items cache/cache.rs | struct CacheMetaData, struct SetStatus
//@items cache/cache.rs | struct Record | dropderive=Clone
// R5: derive(Clone) on Record is replaced by this stand-in with the field-wise meaning of the derive (ASSUMED)
impl Clone for Record {
    #[verifier::external_body]
    fn clone(&self) -> (r: Record)
        ensures r.header == self.header, r.value@ == self.value@
    { unimplemented!() }
}
//@items cache/error.rs | enum CacheError, type Result

// ASSUMED layout: four scalar fields (u64,u64,u32,u32) = 24 bytes; only used for memory accounting
global layout CacheMetaData is size == 24, align == 8;

impl CacheMetaData {
//@fn cache/cache.rs | impl CacheMetaData | new | ret=r | safety=C10
    ensures
        r.timestamp == 0 && r.cas == cas && r.flags == flags && r.time_to_live == time_to_live, // @ob C01,C05,C07 meta.new.fields
//@endfn
//@fn cache/cache.rs | impl CacheMetaData | get_expiration | ret=r | safety=C10
    ensures
        r == self.time_to_live, // @ob C07 meta.get_expiration.exact
//@endfn
//@fn cache/cache.rs | impl CacheMetaData | len | ret=r | safety=C10
    ensures
        r == 24, // @ob C14,C15 meta.len.constant
//@endfn
}

impl Record {
//@fn cache/cache.rs | impl Record | new | ret=r | safety=C10
    ensures
        r.value@ == value@ && r.header.cas == cas && r.header.flags == flags && r.header.time_to_live == expiration && r.header.timestamp == 0, // @ob C01,C05,C06 record.new.fields
//@endfn
//@fn cache/cache.rs | impl Record | len | ret=r | safety=C10,C14
    ensures
        r == 24 + self.value@.len(), // @ob C14,C15 record.len.exact
//@endfn
}

impl CacheError {
//@fn cache/error.rs | impl CacheError | to_static_string | ret=r | safety=C10
    ensures
        r@ == error_text(*self), // @ob C11 error.text_table
//@endfn
}

//@include model.rs
//@include prelude_store.rs
//@include model_resp.rs

// ---- the Cache traits (declarations written here per R10; the default body of `get` comes from /repo) ----
// Abstract state every store exposes to its contracts:
pub trait CacheImplDetails {
    spec fn cview(&self) -> CView;        // physical content
    spec fn now(&self) -> u64;            // the clock, constant within one command
    spec fn cas_next(&self) -> u64;       // CAS counter (watermark)
    spec fn inv(&self) -> bool;           // representation invariant

    fn get_by_key(&mut self, key: &KeyType) -> (r: Result<Record>)
        requires old(self).inv(),
        ensures
            final(self).inv() && final(self).cview() == old(self).cview() && final(self).now() == old(self).now() && final(self).cas_next() == old(self).cas_next(),
            r is Ok <==> old(self).cview().contains_key(key@),
            r is Ok ==> same_item(item_of(r->Ok_0), old(self).cview()[key@]) && r->Ok_0.header.timestamp <= old(self).now(),
            r is Err ==> r->Err_0 == CacheError::NotFound;

    fn check_if_expired(&mut self, key: &KeyType, record: &Record) -> (r: bool)
        requires old(self).inv(), record.header.timestamp <= old(self).now(),
        ensures
            final(self).inv() && final(self).now() == old(self).now() && final(self).cas_next() == old(self).cas_next(),
            r == !live(item_of(*record), old(self).now()),
            r ==> final(self).cview() =~= old(self).cview().remove(key@),
            !r ==> final(self).cview() == old(self).cview();
}

pub open spec fn post_get(v0: CView, now: u64, k: Seq<u8>, r: Result<Record>, v1: CView) -> bool {
    match lookup(v0, now, k) {
        Some(i) => r is Ok && same_item(item_of(r->Ok_0), i) && v1 == v0,
        None => r is Err && r->Err_0 == CacheError::NotFound && v1 =~= v0.remove(k),
    }
}

pub trait Cache: CacheImplDetails {
//@fn cache/cache.rs | trait Cache | get | ret=r | mutself | safety=C10,C01,C05
        requires
            old(self).inv(),
        ensures
            final(self).inv() && final(self).now() == old(self).now() && final(self).cas_next() == old(self).cas_next(),
            post_get(old(self).cview(), old(self).now(), key@, r, final(self).cview()), // @ob C01,C05,C03 cache.get.lookup_exact
//@endfn
}

// C01: a retrieval changes no observation of any key
pub proof fn lemma_get_preserves_observations(v0: CView, now: u64, k: Seq<u8>, r: Result<Record>, v1: CView) // @ob C01 lemma.get_preserves_observations
    requires post_get(v0, now, k, r, v1),
    ensures same_observations(v0, v1, now),
{
    assert forall|k2: Seq<u8>| lookup(v0, now, k2) == lookup(v1, now, k2) by {}
}

// ---- memory_store/store.rs -----------------------------------------------------------------------
//@fields memory_store/store.rs | struct MemoryStore | memory,timer,cas_id
pub struct MemoryStore {
    pub memory: Storage,      // R4: DashMap<KeyType, Record> stand-in
    pub timer: TimerS,        // R4: Arc<dyn timer::Timer + Send + Sync> stand-in
    pub cas_id: AtomicU64,    // R4: AtomicU64 stand-in
}

// ASSUMED at every mutating entry point: fewer than 2^64-1 CAS values have been issued (the counter does not wrap)
pub open spec fn cas_room(c: u64) -> bool { c < 0xffff_ffff_ffff_ffff }

pub open spec fn ms_inv(s: MemoryStore) -> bool {
    &&& 1 <= s.cas_id.val()
    &&& s.timer.now() < 0x8000_0000_0000_0000                                     // ASSUMED: the clock counts seconds since start
    &&& forall|k: Seq<u8>| #[trigger] s.memory@.contains_key(k) ==> s.memory@[k].ts <= s.timer.now()
}

impl MemoryStore {
//@fn memory_store/store.rs | impl MemoryStore | get_cas_id | ret=r | mutself | safety=C10,C02
    requires
        ms_inv(*old(self)), cas_room(old(self).cas_id.val()),
    ensures
        r == old(self).cas_id.val() && final(self).cas_id.val() == r + 1, // @ob C02 get_cas_id.counter
        final(self).memory == old(self).memory && final(self).timer == old(self).timer, // @ob C01 get_cas_id.frame
//@endfn
}

impl CacheImplDetails for MemoryStore {
    open spec fn cview(&self) -> CView { self.memory@ }
    open spec fn now(&self) -> u64 { self.timer.now() }
    open spec fn cas_next(&self) -> u64 { self.cas_id.val() }
    open spec fn inv(&self) -> bool { ms_inv(*self) }

//@fn memory_store/store.rs | impl impl_details::CacheImplDetails for MemoryStore | get_by_key | ret=r | mutself | safety=C10
//@endfn

//@fn memory_store/store.rs | impl impl_details::CacheImplDetails for MemoryStore | check_if_expired | ret=r | mutself | safety=C10,C05
//@endfn
}

impl Cache for MemoryStore {
}

impl MemoryStore {
    // The methods of `impl Cache for MemoryStore` (R8: verified as inherent methods with the same signatures;
    // the stand-in trait above carries only the default `get`).
//@fn memory_store/store.rs | impl Cache for MemoryStore | remove | ret=r | mutself | safety=C10
    requires
        ms_inv(*old(self)),
    ensures
        ms_inv(*final(self)) && final(self).timer == old(self).timer && final(self).cas_id == old(self).cas_id, // @ob C01 store.remove.frame
        final(self).memory@ =~= old(self).memory@.remove(key@), // @ob C01,C08 store.remove.exact
        r is Some <==> old(self).memory@.contains_key(key@), // @ob C15 store.remove.reports
        r is Some ==> same_item(item_of(r->Some_0.1), old(self).memory@[key@]), // @ob C15 store.remove.returns_record
//@endfn

//@fn memory_store/store.rs | impl Cache for MemoryStore | set | ret=r | mutself | safety=C10,C01,C02 | inline=get_cas_id
    requires
        ms_inv(*old(self)), cas_room(old(self).cas_id.val()),
    ensures
        ms_inv(*final(self)) && final(self).timer == old(self).timer, // @ob C01 store.set.inv
        post_set(old(self).memory@, old(self).cas_id.val(), old(self).timer.now(), key@, record.value@, record.header.flags, record.header.time_to_live, record.header.cas,
                 r is Ok, r is Err && r->Err_0 == CacheError::KeyExists, if r is Ok { r->Ok_0.cas } else { 0 }, final(self).memory@, final(self).cas_id.val()), // @ob C01,C02,C05 store.set.post_set
//@endfn

//@fn memory_store/store.rs | impl Cache for MemoryStore | delete | ret=r | mutself | safety=C10 | assumed=kani:store_delete
    requires
        ms_inv(*old(self)),
    ensures
        ms_inv(*final(self)) && final(self).timer == old(self).timer && final(self).cas_id == old(self).cas_id,
        post_delete(old(self).memory@, key@, header.cas, r is Ok, r is Err && r->Err_0 == CacheError::NotFound, r is Err && r->Err_0 == CacheError::KeyExists, final(self).memory@),
        r is Ok ==> same_item(item_of(r->Ok_0), old(self).memory@[key@]),
//@endfn

//@fn memory_store/store.rs | impl Cache for MemoryStore | flush | mutself | safety=C10,C08
    requires
        ms_inv(*old(self)),
    ensures
        ms_inv(*final(self)) && final(self).timer == old(self).timer && final(self).cas_id == old(self).cas_id, // @ob C08 store.flush.frame
        post_flush(old(self).memory@, old(self).timer.now(), header.time_to_live, final(self).memory@), // @ob C05,C08 store.flush.post_flush
//@closure 0 | |_key: &KeyType, mut value: Record| -> (w: Record)
                ensures w.value@ == value.value@ && w.header.flags == value.header.flags && w.header.cas == value.header.cas && w.header.timestamp == value.header.timestamp,
                        w.header.time_to_live != 0 && w.header.time_to_live <= header.time_to_live,
                        value.header.time_to_live != 0 ==> w.header.time_to_live <= value.header.time_to_live,
//@endfn

//@fn memory_store/store.rs | impl Cache for MemoryStore | len | ret=r | safety=C10
    ensures
        r == self.memory@.dom().len(), // @ob C14 store.len.exact
//@endfn

//@fn memory_store/store.rs | impl Cache for MemoryStore | is_empty | ret=r | safety=C10
    ensures
        r == (self.memory@.dom().len() == 0), // @ob C14 store.is_empty.exact
//@endfn
}
//@closed memory_store/store.rs | impl Cache for MemoryStore | allow=as_read_only,remove_if
//@closed memory_store/store.rs | impl impl_details::CacheImplDetails for MemoryStore

} // verus!
fn main() {}
