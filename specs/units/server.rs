// Unit server: memory_store/store.rs, cache/cache.rs (trait default get), memcache/store.rs,
// memcache_server/handler.rs and the request/response types, under contract (sequential prelude).
#![allow(unused_imports, dead_code, unused_variables, unused_mut, unused_assignments, non_snake_case, non_upper_case_globals)]
use vstd::prelude::*;
use vstd::string::*;
verus! {

//@include prelude_std.rs
//@include prelude_bytes.rs

// ---- cache/cache.rs, cache/error.rs : plain data (R10) ------------------------------------------
//@items cache/cache.rs | type KeyType, type ValueType
//@items cache/cache.rs | struct CacheMetaData, struct SetStatus
//@items cache/cache.rs | struct Record | dropderive=Clone
// R5: derive(Clone) on Record is replaced by this stand-in with the field-wise meaning of the derive (ASSUMED)
impl Clone for Record {
    #[verifier::external_body]
    fn clone(&self) -> (r: Record)
        ensures r.header == self.header, r.value@ == self.value@
    { unimplemented!() }
}
//@items cache/error.rs | enum CacheError, type Result

// ASSUMED layout: four scalar fields (u64,u64,u32,u32) = 24 bytes; only used for memory accounting
global layout CacheMetaData is size == 24, align == 8;

impl CacheMetaData {
//@fn cache/cache.rs | impl CacheMetaData | new | ret=r | safety=C10
    ensures
        r.timestamp == 0 && r.cas == cas && r.flags == flags && r.time_to_live == time_to_live, // @ob C01,C05,C07,C02,C06 meta.new.fields
//@endfn
//@fn cache/cache.rs | impl CacheMetaData | get_expiration | ret=r | safety=C10
    ensures
        r == self.time_to_live, // @ob C07 meta.get_expiration.exact
//@endfn
//@fn cache/cache.rs | impl CacheMetaData | len | ret=r | safety=C10
    ensures
        r == 24, // @ob C14,C15 meta.len.constant
//@endfn
}

impl Record {
//@fn cache/cache.rs | impl Record | new | ret=r | safety=C10
    ensures
        r.value@ == value@ && r.header.cas == cas && r.header.flags == flags && r.header.time_to_live == expiration && r.header.timestamp == 0, // @ob C01,C05,C06,C02,C07 record.new.fields
//@endfn
//@fn cache/cache.rs | impl Record | len | ret=r | safety=C10,C14
    ensures
        r == 24 + self.value@.len(), // @ob C14,C15 record.len.exact
//@endfn
}

// Record == Record is what /repo's `impl PartialEq for Record` says (at the time of writing: the VALUE bytes only - flags,
// CAS and expiry do not take part).  The impl is extracted and checked against this spec; the obligation carries the
// pseudo-property ALL: if it fails, every contract that mentions `==` on records has lost its meaning and every
// property of the unit is undecided (never a violation by itself).
impl vstd::std_specs::cmp::PartialEqSpecImpl for Record {
    open spec fn obeys_eq_spec() -> bool { true }
    open spec fn eq_spec(&self, other: &Record) -> bool { self.value@ == other.value@ }
}
impl PartialEq for Record {
//@fn cache/cache.rs | impl PartialEq for Record | eq | ret=r | safety=ALL
    ensures
        r == (self.value@ == other.value@), // @ob ALL record.eq.value_bytes_only
//@endfn
}

impl CacheError {
//@fn cache/error.rs | impl CacheError | to_static_string | ret=r | safety=C10
    ensures
        r == error_str(*self), // @ob C11 error.text_table
//@endfn
}

//@include model.rs
//@include prelude_store.rs
//@include prelude_num.rs
//@include model_resp.rs

// ---- the Cache traits (declarations written here per R10; the default body of `get` comes from /repo) ----
// Abstract state every store exposes to its contracts:
pub trait CacheImplDetails {
    spec fn cview(&self) -> CView;        // physical content
    spec fn now(&self) -> u64;            // the clock, constant within one command
    spec fn cas_next(&self) -> u64;       // CAS counter (watermark)
    spec fn inv(&self) -> bool;           // representation invariant

    fn get_by_key(&mut self, key: &KeyType) -> (r: Result<Record>)
        requires old(self).inv(),
        ensures
            final(self).inv() && final(self).cview() == old(self).cview() && final(self).now() == old(self).now() && final(self).cas_next() == old(self).cas_next(), // @ob C01 get_by_key.frame
            r is Ok <==> old(self).cview().contains_key(key@), // @ob C01 get_by_key.present_iff
            r is Ok ==> same_item(item_of(r->Ok_0), old(self).cview()[key@]) && r->Ok_0.header.timestamp <= old(self).now(), // @ob C01,C02,C05 get_by_key.returns_stored
            r is Err ==> r->Err_0 == CacheError::NotFound; // @ob C01 get_by_key.not_found

    fn check_if_expired(&mut self, key: &KeyType, record: &Record) -> (r: bool)
        requires old(self).inv(), record.header.timestamp <= old(self).now(),
        ensures
            final(self).inv() && final(self).now() == old(self).now() && final(self).cas_next() == old(self).cas_next(), // @ob C05 check_if_expired.frame
            r == !live(item_of(*record), old(self).now()), // @ob C05 check_if_expired.exact
            // collecting never changes what any client can observe (an expired record is already invisible) ...
            same_observations(old(self).cview(), final(self).cview(), old(self).now()), // @ob C05,C03 check_if_expired.collection_is_unobservable
            // ... and when the record handed in is the stored one and it is expired, it is physically gone afterwards
            r && old(self).cview().contains_key(key@) && same_item(item_of(*record), old(self).cview()[key@])
                ==> final(self).cview() =~= old(self).cview().remove(key@), // @ob C05 check_if_expired.collects
            !r ==> final(self).cview() == old(self).cview(); // @ob C05,C01 check_if_expired.keeps_live
}

pub open spec fn post_get(v0: CView, now: u64, k: Seq<u8>, r: Result<Record>, v1: CView) -> bool {
    match lookup(v0, now, k) {
        Some(i) => r is Ok && same_item(item_of(r->Ok_0), i) && v1 == v0,
        None => r is Err && r->Err_0 == CacheError::NotFound && v1 =~= v0.remove(k),
    }
}

pub trait Cache: CacheImplDetails {
//@fn cache/cache.rs | trait Cache | get | ret=r | mutself | safety=C10,C01,C05
        requires
            old(self).inv(),
        ensures
            final(self).inv() && final(self).now() == old(self).now() && final(self).cas_next() == old(self).cas_next(),
            post_get(old(self).cview(), old(self).now(), key@, r, final(self).cview()), // @ob C01,C05,C03 cache.get.lookup_exact
//@endfn
}

// C01: a retrieval changes no observation of any key
pub proof fn lemma_get_preserves_observations(v0: CView, now: u64, k: Seq<u8>, r: Result<Record>, v1: CView) // @ob C01 lemma.get_preserves_observations
    requires post_get(v0, now, k, r, v1),
    ensures same_observations(v0, v1, now),
{
    assert forall|k2: Seq<u8>| lookup(v0, now, k2) == lookup(v1, now, k2) by {}
}

// ---- memory_store/store.rs -----------------------------------------------------------------------
//@consts memory_store/store.rs | -
//@consts cache/cache.rs | -
//@fields memory_store/store.rs | struct MemoryStore | memory,timer,cas_id
pub struct MemoryStore {
    pub memory: Storage,      // R4: DashMap<KeyType, Record> stand-in
    pub timer: TimerS,        // R4: Arc<dyn timer::Timer + Send + Sync> stand-in
    pub cas_id: AtomicU64,    // R4: AtomicU64 stand-in
}

// ASSUMED at every mutating entry point: fewer than 2^64-1 CAS values have been issued (the counter does not wrap)
pub open spec fn cas_room(c: u64) -> bool { c < 0xffff_ffff_ffff_ffff }

pub open spec fn ms_inv(s: MemoryStore) -> bool {
    &&& 1 <= s.cas_id.val()
    &&& s.timer.now() < 0x8000_0000_0000_0000                                     // ASSUMED: the clock counts seconds since start
    &&& forall|k: Seq<u8>| #[trigger] s.memory@.contains_key(k) ==> s.memory@[k].ts <= s.timer.now()
}

impl Storage {
    // DashMap::new() as called by MemoryStore::new (R7: the name `DashMap` resolves to the stand-in)
}
pub type DashMap = Storage;

impl MemoryStore {
//@fn memory_store/store.rs | impl MemoryStore | new | ret=r | safety=C10 | sigsub=Arc<dyn timer::Timer + Send + Sync>=>TimerS
    requires
        timer.now() < 0x8000_0000_0000_0000,
    ensures
        ms_inv(r) && r.memory@ =~= Map::<Seq<u8>, Item>::empty() && r.cas_id.val() == 1 && r.timer == timer, // @ob C01,C02 store.new.empty_and_counter_at_one
//@endfn

//@fn memory_store/store.rs | impl MemoryStore | get_cas_id | ret=r | mutself | safety=C10,C02
    requires
        ms_inv(*old(self)), cas_room(old(self).cas_id.val()),
    ensures
        r == old(self).cas_id.val() && final(self).cas_id.val() == r + 1, // @ob C02 get_cas_id.counter
        final(self).memory == old(self).memory && final(self).timer == old(self).timer, // @ob C01 get_cas_id.frame
//@endfn
}

impl CacheImplDetails for MemoryStore {
    open spec fn cview(&self) -> CView { self.memory@ }
    open spec fn now(&self) -> u64 { self.timer.now() }
    open spec fn cas_next(&self) -> u64 { self.cas_id.val() }
    open spec fn inv(&self) -> bool { ms_inv(*self) }

//@fn memory_store/store.rs | impl impl_details::CacheImplDetails for MemoryStore | get_by_key | ret=r | mutself | safety=C10
//@endfn

//@fn memory_store/store.rs | impl impl_details::CacheImplDetails for MemoryStore | check_if_expired | ret=r | mutself | safety=C10,C05
//@closure 0 | |_key: &KeyType, stored: &Record| -> (b: bool)
            requires stamped_ok(*stored),
            ensures b == !live(item_of(*stored), current_time), // @ob C05,C03 check_if_expired.removes_only_expired
//@endfn
}

impl Cache for MemoryStore {
}

impl MemoryStore {
    // The methods of `impl Cache for MemoryStore` (R8: verified as inherent methods with the same signatures;
    // the stand-in trait above carries only the default `get`).
//@fn memory_store/store.rs | impl Cache for MemoryStore | remove | ret=r | mutself | safety=C10
    requires
        ms_inv(*old(self)),
    ensures
        ms_inv(*final(self)) && final(self).timer == old(self).timer && final(self).cas_id == old(self).cas_id, // @ob C01 store.remove.frame
        final(self).memory@ =~= old(self).memory@.remove(key@), // @ob C01,C08 store.remove.exact
        r is Some <==> old(self).memory@.contains_key(key@), // @ob C15 store.remove.reports
        r is Some ==> same_item(item_of(r->Some_0.1), old(self).memory@[key@]), // @ob C15 store.remove.returns_record
//@endfn

//@fn memory_store/store.rs | impl Cache for MemoryStore | set | ret=r | mutself | safety=C10,C01,C02 | inline=get_cas_id
    requires
        ms_inv(*old(self)), cas_room(old(self).cas_id.val()),
    ensures
        ms_inv(*final(self)) && final(self).timer == old(self).timer, // @ob C01 store.set.inv
        // the counter moves by at most one per store: this is what makes "it never reaches 2^64-1" (cas_room,
        // assumed at every entry) a physical fact rather than a hope
        old(self).cas_id.val() <= final(self).cas_id.val() <= old(self).cas_id.val() + 1, // @ob C02 store.set.counter_moves_by_at_most_one
        post_set(old(self).memory@, old(self).cas_id.val(), old(self).timer.now(), key@, record.value@, record.header.flags, record.header.time_to_live, record.header.cas,
                 r is Ok, r is Err && r->Err_0 == CacheError::KeyExists, r is Err && r->Err_0 == CacheError::NotFound, if r is Ok { r->Ok_0.cas } else { 0 }, final(self).memory@, final(self).cas_id.val()), // @ob C01,C02,C05,C08 store.set.post_set
//@endfn

//@fn memory_store/store.rs | impl Cache for MemoryStore | delete | ret=r | mutself | safety=C10 | assumed=kani:store_delete
    requires
        ms_inv(*old(self)),
    ensures
        ms_inv(*final(self)) && final(self).timer == old(self).timer && final(self).cas_id == old(self).cas_id,
        post_delete(old(self).memory@, key@, header.cas, r is Ok, r is Err && r->Err_0 == CacheError::NotFound, r is Err && r->Err_0 == CacheError::KeyExists, final(self).memory@),
        r is Ok ==> same_item(item_of(r->Ok_0), old(self).memory@[key@]),
//@endfn

//@fn memory_store/store.rs | impl Cache for MemoryStore | flush | mutself | safety=C10,C08
    requires
        ms_inv(*old(self)),
    ensures
        ms_inv(*final(self)) && final(self).timer == old(self).timer && final(self).cas_id == old(self).cas_id, // @ob C08 store.flush.frame
        post_flush(old(self).memory@, old(self).timer.now(), header.time_to_live, final(self).memory@), // @ob C05,C08 store.flush.post_flush
//@closure 0 | |_key: &KeyType, mut value: Record| -> (w: Record)
                ensures w.value@ == value.value@ && w.header.flags == value.header.flags && w.header.cas == value.header.cas && w.header.timestamp == value.header.timestamp, // @ob C08,C05 store.flush.closure_keeps_item
                        w.header.time_to_live != 0 && w.header.time_to_live <= header.time_to_live, // @ob C08 store.flush.closure_deadline
                        value.header.time_to_live != 0 ==> w.header.time_to_live <= value.header.time_to_live, // @ob C05 store.flush.closure_never_prolongs
//@endfn

//@fn memory_store/store.rs | impl Cache for MemoryStore | len | ret=r | safety=C10
    ensures
        r == self.memory@.dom().len(), // @ob C14 store.len.exact
//@endfn

//@fn memory_store/store.rs | impl Cache for MemoryStore | is_empty | ret=r | safety=C10
    ensures
        r == (self.memory@.dom().len() == 0), // @ob C14 store.is_empty.exact
//@endfn
}
//@closed memory_store/store.rs | impl Cache for MemoryStore | allow=as_read_only,remove_if
//@closed memory_store/store.rs | impl impl_details::CacheImplDetails for MemoryStore

// ---- memcache/store.rs ---------------------------------------------------------------------------
pub mod store {
    use vstd::prelude::*;
    use super::*;
    // R7: the `use ... as ...` lines of memcache/store.rs
    use super::{CacheMetaData as CacheMeta, KeyType as CacheKeyType, Record as CacheRecord, SetStatus as CacheSetStatus};
//@consts memcache/store.rs | -
//@items memcache/store.rs | type Record, type Meta, type SetStatus, type KeyType, struct DeltaParam, type IncrementParam, type DecrementParam, type DeltaResultValueType, struct DeltaResult

//@fields memcache/store.rs | struct MemcStore | store
    pub struct MemcStore {
        pub store: MemoryStore,   // R4: Arc<dyn Cache + Send + Sync>, instantiated as builder.rs does for policy None
    }

    // C06: add
    pub open spec fn post_add(v0: CView, cas0: u64, now: u64, k: Seq<u8>, rec: Record, r: Result<SetStatus>, v1: CView, cas1: u64) -> bool {
        match lookup(v0, now, k) {
            Some(i) => r is Err && r->Err_0 == CacheError::KeyExists && v1 == v0 && cas1 == cas0,
            None => post_set(v0.remove(k), cas0, now, k, rec.value@, rec.header.flags, rec.header.time_to_live, rec.header.cas,
                             r is Ok, r is Err && r->Err_0 == CacheError::KeyExists, r is Err && r->Err_0 == CacheError::NotFound, if r is Ok { r->Ok_0.cas } else { 0 }, v1, cas1),
        }
    }
    // C06: replace
    pub open spec fn post_replace(v0: CView, cas0: u64, now: u64, k: Seq<u8>, rec: Record, r: Result<SetStatus>, v1: CView, cas1: u64) -> bool {
        match lookup(v0, now, k) {
            Some(i) => post_set(v0, cas0, now, k, rec.value@, rec.header.flags, rec.header.time_to_live, rec.header.cas,
                             r is Ok, r is Err && r->Err_0 == CacheError::KeyExists, r is Err && r->Err_0 == CacheError::NotFound, if r is Ok { r->Ok_0.cas } else { 0 }, v1, cas1),
            None => r is Err && r->Err_0 == CacheError::NotFound && v1 =~= v0.remove(k) && cas1 == cas0,
        }
    }
    // C06: append (front == false: old ++ new) / prepend (front == true: new ++ old); flags and ttl of the item are kept
    pub open spec fn post_concat(front: bool, v0: CView, cas0: u64, now: u64, k: Seq<u8>, rec: Record, r: Result<SetStatus>, v1: CView, cas1: u64) -> bool {
        match lookup(v0, now, k) {
            Some(i) => post_set(v0, cas0, now, k, if front { rec.value@ + i.value } else { i.value + rec.value@ }, i.flags, i.ttl, rec.header.cas,
                             r is Ok, r is Err && r->Err_0 == CacheError::KeyExists, r is Err && r->Err_0 == CacheError::NotFound, if r is Ok { r->Ok_0.cas } else { 0 }, v1, cas1),
            None => r is Err && r->Err_0 == CacheError::NotFound && v1 =~= v0.remove(k) && cas1 == cas0,
        }
    }


    // C07: incr / decr.  Result decomposed: ok, err (meaningful when !ok), acked CAS and value (meaningful when ok)
    pub open spec fn post_delta(incr: bool, v0: CView, cas0: u64, now: u64, k: Seq<u8>, delta: u64, initial: u64, hdr: Meta,
                                ok: bool, err: CacheError, acked: u64, value: u64, v1: CView, cas1: u64) -> bool {
        match lookup(v0, now, k) {
            Some(i) => {
                if numeric_u64(i.value) {
                    let nv = delta_apply(incr, dec_val(i.value) as u64, delta);
                    // stored and returned: the new value as decimal text; the item keeps its flags (C07) and its ttl (C05)
                    &&& post_set(v0, cas0, now, k, dec_text(nv as nat), i.flags, i.ttl, hdr.cas,
                                 ok, !ok && err == CacheError::KeyExists, !ok && err == CacheError::NotFound, acked, v1, cas1)
                    &&& (ok ==> value == nv)
                } else if plus_numeric(i.value) {
                    true
                } else {
                    !ok && err == CacheError::ArithOnNonNumeric && v1 == v0 && cas1 == cas0
                }
            },
            None => {
                if hdr.time_to_live != 0xffff_ffffu32 {
                    &&& post_set(v0.remove(k), cas0, now, k, dec_text(initial as nat), 0, hdr.time_to_live, 0,
                                 ok, !ok && err == CacheError::KeyExists, !ok && err == CacheError::NotFound, acked, v1, cas1)
                    &&& (ok ==> value == initial)
                } else {
                    !ok && err == CacheError::NotFound && v1 =~= v0.remove(k) && cas1 == cas0
                }
            },
        }
    }
    pub open spec fn dr_ok(r: Result<DeltaResult>) -> bool { r is Ok }
    pub open spec fn dr_err(r: Result<DeltaResult>) -> CacheError { if r is Err { r->Err_0 } else { CacheError::NotFound } }
    pub open spec fn dr_cas(r: Result<DeltaResult>) -> u64 { if r is Ok { r->Ok_0.cas } else { 0 } }
    pub open spec fn dr_val(r: Result<DeltaResult>) -> u64 { if r is Ok { r->Ok_0.value } else { 0 } }

    pub open spec fn mc_inv(s: MemcStore) -> bool { ms_inv(s.store) }
    pub open spec fn mc_room(s: MemcStore) -> bool { cas_room(s.store.cas_id.val()) }
    pub open spec fn mc_now(s: MemcStore) -> u64 { s.store.timer.now() }
    pub open spec fn mc_frame(a: MemcStore, b: MemcStore) -> bool { mc_inv(b) && b.store.timer.now() == a.store.timer.now() }
    pub open spec fn mc_cas(s: MemcStore) -> u64 { s.store.cas_id.val() }

    impl MemcStore {
//@fn memcache/store.rs | impl MemcStore | new | ret=r | safety=C10 | sigsub=Arc<dyn Cache + Send + Sync>=>MemoryStore
        ensures
            r.store == store, // @ob C01 memc.new.wraps
//@endfn

//@fn memcache/store.rs | impl MemcStore | set | ret=r | mutself | safety=C10
        requires
            mc_inv(*old(self)), mc_room(*old(self)),
        ensures
            mc_frame(*old(self), *final(self)), // @ob C01 memc.set.frame
            post_set(old(self).store.memory@, old(self).store.cas_id.val(), mc_now(*old(self)), key@, record.value@, record.header.flags, record.header.time_to_live, record.header.cas,
                     r is Ok, r is Err && r->Err_0 == CacheError::KeyExists, r is Err && r->Err_0 == CacheError::NotFound, if r is Ok { r->Ok_0.cas } else { 0 }, final(self).store.memory@, final(self).store.cas_id.val()), // @ob C01,C02,C05,C08 memc.set.post_set
//@endfn

//@fn memcache/store.rs | impl MemcStore | get | ret=r | mutself | safety=C10
        requires
            mc_inv(*old(self)),
        ensures
            mc_frame(*old(self), *final(self)) && mc_cas(*final(self)) == mc_cas(*old(self)), // @ob C01 memc.get.frame
            post_get(old(self).store.memory@, mc_now(*old(self)), key@, r, final(self).store.memory@), // @ob C01,C05,C02 memc.get.lookup_exact
//@endfn

//@fn memcache/store.rs | impl MemcStore | add | ret=r | mutself | safety=C10,C06
        requires
            mc_inv(*old(self)), mc_room(*old(self)),
        ensures
            mc_frame(*old(self), *final(self)), // @ob C06 memc.add.frame
            post_add(old(self).store.memory@, old(self).store.cas_id.val(), mc_now(*old(self)), key@, record, r, final(self).store.memory@, final(self).store.cas_id.val()), // @ob C06,C05,C02 memc.add.post_add
//@endfn

//@fn memcache/store.rs | impl MemcStore | replace | ret=r | mutself | safety=C10,C06
        requires
            mc_inv(*old(self)), mc_room(*old(self)),
        ensures
            mc_frame(*old(self), *final(self)), // @ob C06 memc.replace.frame
            post_replace(old(self).store.memory@, old(self).store.cas_id.val(), mc_now(*old(self)), key@, record, r, final(self).store.memory@, final(self).store.cas_id.val()), // @ob C06,C05,C02 memc.replace.post_replace
//@endfn

//@fn memcache/store.rs | impl MemcStore | append | ret=r | mutself | safety=C10,C06
        requires
            mc_inv(*old(self)), mc_room(*old(self)),
        ensures
            mc_frame(*old(self), *final(self)), // @ob C06 memc.append.frame
            post_concat(false, old(self).store.memory@, old(self).store.cas_id.val(), mc_now(*old(self)), key@, new_record, r, final(self).store.memory@, final(self).store.cas_id.val()), // @ob C06,C05,C02,C01 memc.append.post_concat
//@endfn

//@fn memcache/store.rs | impl MemcStore | prepend | ret=r | mutself | safety=C10,C06
        requires
            mc_inv(*old(self)), mc_room(*old(self)),
        ensures
            mc_frame(*old(self), *final(self)), // @ob C06 memc.prepend.frame
            post_concat(true, old(self).store.memory@, old(self).store.cas_id.val(), mc_now(*old(self)), key@, new_record, r, final(self).store.memory@, final(self).store.cas_id.val()), // @ob C06,C05,C02,C01 memc.prepend.post_concat
//@endfn


//@fn memcache/store.rs | impl MemcStore | increment | ret=r | mutself | safety=C10,C07
        requires
            mc_inv(*old(self)), mc_room(*old(self)),
        ensures
            mc_frame(*old(self), *final(self)), // @ob C07 memc.increment.frame
            post_delta(true, old(self).store.memory@, mc_cas(*old(self)), mc_now(*old(self)), key@, increment.delta, increment.value, header, dr_ok(r), dr_err(r), dr_cas(r), dr_val(r), final(self).store.memory@, mc_cas(*final(self))), // @ob C07,C05,C02 memc.increment.post_delta
//@endfn

//@fn memcache/store.rs | impl MemcStore | decrement | ret=r | mutself | safety=C10,C07
        requires
            mc_inv(*old(self)), mc_room(*old(self)),
        ensures
            mc_frame(*old(self), *final(self)), // @ob C07 memc.decrement.frame
            post_delta(false, old(self).store.memory@, mc_cas(*old(self)), mc_now(*old(self)), key@, decrement.delta, decrement.value, header, dr_ok(r), dr_err(r), dr_cas(r), dr_val(r), final(self).store.memory@, mc_cas(*final(self))), // @ob C07,C05,C02 memc.decrement.post_delta
//@endfn

        // add_delta: its Result adapter chains are desugared mechanically into matches (R12), three std calls on
        // primitives are redirected to stand-ins (R12b); the body is then verified like any other.
//@fn memcache/store.rs | impl MemcStore | add_delta | ret=r | mutself | safety=C10,C07 | chainrw | resub=([A-Za-z_][A-Za-z0-9_]*)\s*\.parse::<u64>\(\)=>parse_u64(\1) | resub=([A-Za-z_][A-Za-z0-9_.]*)\.to_string\(\)=>u64_to_string(\1)
        requires
            mc_inv(*old(self)), mc_room(*old(self)),
        ensures
            mc_frame(*old(self), *final(self)), // @ob C07 memc.add_delta.frame
            post_delta(increment, old(self).store.memory@, mc_cas(*old(self)), mc_now(*old(self)), key@, delta.delta, delta.value, header, dr_ok(r), dr_err(r), dr_cas(r), dr_val(r), final(self).store.memory@, mc_cas(*final(self))), // @ob C07,C05,C02,C10 memc.add_delta.post_delta
//@endfn

//@fn memcache/store.rs | impl MemcStore | delete | ret=r | mutself | safety=C10,C08
        requires
            mc_inv(*old(self)),
        ensures
            mc_frame(*old(self), *final(self)) && mc_cas(*final(self)) == mc_cas(*old(self)), // @ob C08 memc.delete.frame
            post_delete(old(self).store.memory@, key@, header.cas, r is Ok, r is Err && r->Err_0 == CacheError::NotFound, r is Err && r->Err_0 == CacheError::KeyExists, final(self).store.memory@), // @ob C08,C02 memc.delete.post_delete
//@endfn

//@fn memcache/store.rs | impl MemcStore | flush | mutself | safety=C10,C08
        requires
            mc_inv(*old(self)),
        ensures
            mc_frame(*old(self), *final(self)) && mc_cas(*final(self)) == mc_cas(*old(self)), // @ob C08 memc.flush.frame
            post_flush(old(self).store.memory@, mc_now(*old(self)), header.time_to_live, final(self).store.memory@), // @ob C05,C08 memc.flush.post_flush
//@endfn
    }
//@closed memcache/store.rs | impl MemcStore
}

// ---- protocol/binary.rs, request/response enums of protocol/binary_codec.rs ------------------------
pub mod binary {
    use vstd::prelude::*;
    use super::Bytes;
//@items protocol/binary.rs | struct RequestHeader, struct ResponseHeader | dropderive=Default
    // R5: derive(Default) on the two header structs is replaced by these stand-ins with the meaning of the derive (ASSUMED)
    impl Default for RequestHeader {
        #[verifier::external_body]
        fn default() -> (r: RequestHeader)
            ensures r == (RequestHeader { magic: 0, opcode: 0, key_length: 0, extras_length: 0, data_type: 0, vbucket_id: 0, body_length: 0, opaque: 0, cas: 0 })
        { unimplemented!() }
    }
    impl Default for ResponseHeader {
        #[verifier::external_body]
        fn default() -> (r: ResponseHeader)
            ensures r == (ResponseHeader { magic: 0, opcode: 0, key_length: 0, extras_length: 0, data_type: 0, status: 0, body_length: 0, opaque: 0, cas: 0 })
        { unimplemented!() }
    }
//@items protocol/binary.rs | enum Magic, enum ResponseStatus, enum DataTypes, enum Command, struct Request, struct Response, struct VersionResponse, struct ErrorResponse, struct GetRequest, struct GetResponse, struct SetRequest, struct AppendRequest, struct IncrementRequest, struct IncrementResponse, struct TouchRequest, struct FlushRequest, struct StatsResponse, type *

    impl ResponseHeader {
//@fn protocol/binary.rs | impl ResponseHeader | new | ret=r | safety=C10
        ensures
            r == (ResponseHeader { magic: 0x81, opcode: cmd, key_length: 0, extras_length: 0, data_type: 0, status: 0, body_length: 0, opaque, cas: 0 }), // @ob C11 response_header.new.fields
//@endfn
    }
}

// R6/R7: `pub static MEMCRS_VERSION: &str = crate_version!();` (clap macro = CARGO_PKG_VERSION); contracts never look at the text
pub const MEMCRS_VERSION: &'static str = "0.0.1";
// ASSUMED: the crate version string is short (it is CARGO_PKG_VERSION)
#[verifier::external_body]
pub proof fn axiom_version_short()
    ensures MEMCRS_VERSION.spec_bytes().len() <= 64
{ }

pub mod binary_codec {
    use vstd::prelude::*;
    use super::*;
//@items protocol/binary_codec.rs | enum BinaryRequest, enum BinaryResponse

    impl BinaryRequest {
//@fn protocol/binary_codec.rs | impl BinaryRequest | get_header | ret=r | safety=C10
        ensures
            *r == req_view(*self).header, // @ob C11 request.get_header.exact
//@endfn
    }
    impl BinaryResponse {
//@fn protocol/binary_codec.rs | impl BinaryResponse | get_header | ret=r | safety=C10
        ensures
            *r == resp_header(*self), // @ob C11 response.get_header.exact
//@endfn
    }

//@fn protocol/binary_codec.rs | - | storage_error_to_response | ret=r | safety=C10,C11
        ensures
            err_resp(r, *old(response_header), err), // @ob C11,C19 storage_error_to_response.table
            *final(response_header) == resp_header(r), // @ob C11 storage_error_to_response.header_out
//@proof 0 | response_header.status = err as u16;
    proof { lemma_error_text_short(err); }
//@endfn
}
use binary_codec::{BinaryRequest, BinaryResponse};

//@include wire.rs
//@include wire_resp.rs
//@include model_handler.rs

// ---- memcache_server/handler.rs ---------------------------------------------------------------------
pub mod handler {
    use vstd::prelude::*;
    use super::*;
    use super::binary_codec::storage_error_to_response;

//@consts memcache_server/handler.rs | -

//@fn memcache_server/handler.rs | - | into_record_meta | ret=r | safety=C10
        ensures
            r.cas == request_header.cas && r.flags == request_header.opaque && r.time_to_live == expiration && r.timestamp == 0, // @ob C02,C07,C08,C01,C05,C06 into_record_meta.fields
//@endfn

//@fn memcache_server/handler.rs | - | into_quiet_get | ret=r | safety=C10,C12
        ensures
            r == (if response is Error && resp_header(response).status == 0x01 { None::<binary_codec::BinaryResponse> } else { Some(response) }) && is_resp(response), // @ob C12,C19 into_quiet_get.exact
//@endfn

//@fn memcache_server/handler.rs | - | into_quiet_mutation | ret=r | safety=C10,C12
        ensures
            r == (if response is Error { Some(response) } else { None::<binary_codec::BinaryResponse> }) && is_resp(response), // @ob C12,C19 into_quiet_mutation.exact
//@endfn

//@fields memcache_server/handler.rs | struct BinaryHandler | storage
    pub struct BinaryHandler {
        pub storage: store::MemcStore,     // R4: Arc<store::MemcStore>
    }

    impl BinaryHandler {
//@fn memcache_server/handler.rs | impl BinaryHandler | new | ret=r | safety=C10 | sigsub=Arc<store::MemcStore>=>store::MemcStore
        ensures
            r.storage == store, // @ob C01 handler.new.wraps
//@endfn

//@fn memcache_server/handler.rs | impl BinaryHandler | handle_request | ret=r | mutself | safety=C10,C11,C12
//@contract handle_request.contract
//@proof 0 | response_header.body_length = MEMCRS_VERSION.len() as u32;
                proof { axiom_version_short(); }
//@endfn

//@fn memcache_server/handler.rs | impl BinaryHandler | add_replace | ret=r | mutself | safety=C10,C06
        requires
            h_pre(old(self).storage),
        ensures
            store::mc_frame(old(self).storage, final(self).storage), // @ob C06 handler.add_replace.frame
            *final(response_header) == resp_header(r), // @ob C11 handler.add_replace.header_out
            loud_post(if request.header.opcode == 0x02 || request.header.opcode == 0x12 { Base::Add } else { Base::Replace }, payload(rv_set(RK::Set, request)), *old(response_header), old(self).storage, final(self).storage, r), // @ob C06,C02,C11,C19,C05,C01 handler.add_replace.loud_post
//@endfn

//@fn memcache_server/handler.rs | impl BinaryHandler | is_add_command | ret=r | safety=C10
        ensures
            r == (opcode == 0x02 || opcode == 0x12), // @ob C06,C19,C01 handler.is_add_command.exact
//@endfn

//@fn memcache_server/handler.rs | impl BinaryHandler | append_prepend | ret=r | mutself | safety=C10,C06
        requires
            h_pre(old(self).storage),
        ensures
            store::mc_frame(old(self).storage, final(self).storage), // @ob C06 handler.append_prepend.frame
            *final(response_header) == resp_header(r), // @ob C11 handler.append_prepend.header_out
            loud_post(if append_req.header.opcode == 0x0e || append_req.header.opcode == 0x19 { Base::Append } else { Base::Prepend }, payload(rv_app(RK::Append, append_req)), *old(response_header), old(self).storage, final(self).storage, r), // @ob C06,C02,C11,C19,C05,C01 handler.append_prepend.loud_post
//@endfn

//@fn memcache_server/handler.rs | impl BinaryHandler | is_append | ret=r | safety=C10
        ensures
            r == (opcode == 0x0e || opcode == 0x19), // @ob C06,C19,C01 handler.is_append.exact
//@endfn

//@fn memcache_server/handler.rs | impl BinaryHandler | set | ret=r | mutself | safety=C10,C01
        requires
            h_pre(old(self).storage),
        ensures
            store::mc_frame(old(self).storage, final(self).storage), // @ob C01 handler.set.frame
            *final(response_header) == resp_header(r), // @ob C11 handler.set.header_out
            loud_post(Base::Set, payload(rv_set(RK::Set, set_req)), *old(response_header), old(self).storage, final(self).storage, r), // @ob C01,C02,C11,C19,C05,C08 handler.set.loud_post
//@endfn

//@fn memcache_server/handler.rs | impl BinaryHandler | delete | ret=r | mutself | safety=C10,C08
        requires
            h_pre(old(self).storage),
        ensures
            store::mc_frame(old(self).storage, final(self).storage), // @ob C08 handler.delete.frame
            *final(response_header) == resp_header(r), // @ob C11 handler.delete.header_out
            loud_post(Base::Delete, payload(rv_key(RK::Delete, delete_request)), *old(response_header), old(self).storage, final(self).storage, r), // @ob C08,C02,C11,C19 handler.delete.loud_post
//@endfn

//@fn memcache_server/handler.rs | impl BinaryHandler | get | ret=r | mutself | safety=C10,C01,C11
        requires
            h_pre(old(self).storage), get_request.key@.len() <= 250,
        ensures
            store::mc_frame(old(self).storage, final(self).storage), // @ob C01 handler.get.frame
            *final(response_header) == resp_header(r), // @ob C11 handler.get.header_out
            loud_post(if get_request.header.opcode == 0x0c || get_request.header.opcode == 0x0d { Base::GetKey } else { Base::Get }, payload(rv_key(RK::Get, get_request)), *old(response_header), old(self).storage, final(self).storage, r), // @ob C01,C02,C05,C11,C19 handler.get.loud_post
//@endfn

//@fn memcache_server/handler.rs | impl BinaryHandler | is_get_key_command | ret=r | safety=C10
        ensures
            r == (opcode == 0x0c || opcode == 0x0d), // @ob C11,C19,C01 handler.is_get_key_command.exact
//@endfn

//@fn memcache_server/handler.rs | impl BinaryHandler | flush | ret=r | mutself | safety=C10,C08
        requires
            h_pre(old(self).storage),
        ensures
            store::mc_frame(old(self).storage, final(self).storage), // @ob C08 handler.flush.frame
            *final(response_header) == resp_header(r), // @ob C11 handler.flush.header_out
            loud_post(Base::Flush, payload(rv_flush(RK::Flush, flush_request)), *old(response_header), old(self).storage, final(self).storage, r), // @ob C08,C05,C11,C19 handler.flush.loud_post
//@endfn

//@fn memcache_server/handler.rs | impl BinaryHandler | increment | ret=r | mutself | safety=C10,C07
        requires
            h_pre(old(self).storage),
        ensures
            store::mc_frame(old(self).storage, final(self).storage), // @ob C07 handler.increment.frame
            *final(response_header) == resp_header(r), // @ob C11 handler.increment.header_out
            loud_post(Base::Incr, payload(rv_inc(RK::Increment, inc_request)), *old(response_header), old(self).storage, final(self).storage, r), // @ob C07,C02,C11,C19,C05 handler.increment.loud_post
//@endfn

//@fn memcache_server/handler.rs | impl BinaryHandler | decrement | ret=r | mutself | safety=C10,C07
        requires
            h_pre(old(self).storage),
        ensures
            store::mc_frame(old(self).storage, final(self).storage), // @ob C07 handler.decrement.frame
            *final(response_header) == resp_header(r), // @ob C11 handler.decrement.header_out
            loud_post(Base::Decr, payload(rv_inc(RK::Decrement, dec_request)), *old(response_header), old(self).storage, final(self).storage, r), // @ob C07,C02,C11,C19,C05 handler.decrement.loud_post
//@endfn
    }
//@closed memcache_server/handler.rs | impl BinaryHandler
}

// ---- protocol/binary_codec.rs: the codec as the connection sees it (contracts proved in units codec_dec / codec_enc) ----
//@items protocol/binary_codec.rs | enum RequestParserState, struct MemcacheBinaryCodec, struct ResponseMessage
//@include model_decode.rs
//@include lemmas/framing.rs
impl MemcacheBinaryCodec {
//@fn protocol/binary_codec.rs | impl MemcacheBinaryCodec | new | ret=r | safety=C10 | assumed=verus:codec_dec
//@contract codec_new.contract
//@endfn
//@fn protocol/binary_codec.rs | impl Decoder for MemcacheBinaryCodec | decode | ret=r | safety=C10 | assumed=verus:codec_dec | sigsub=Result<Option<BinaryRequest>, io::Error>=>core::result::Result<Option<BinaryRequest>, io::Error>
//@contract decode.contract
//@endfn
//@fn protocol/binary_codec.rs | impl MemcacheBinaryCodec | encode_message | ret=r | safety=C10 | assumed=verus:codec_enc
//@contract encode_message.contract
//@endfn
}

//@include prelude_io.rs
//@include model_conn.rs
//@include lemmas/pipeline.rs

// ---- protocol/binary_connection.rs (R3) ---------------------------------------------------------------
pub mod binary_connection {
    use vstd::prelude::*;
    use super::*;
//@consts protocol/binary_connection.rs | -
//@items protocol/binary_connection.rs | struct MemcacheBinaryConnection

    pub open spec fn stream_of(c: MemcacheBinaryConnection) -> Seq<u8> { canon_p(c.codec, c.buffer@) + c.stream.wire() }
    pub open spec fn conn_inv(c: MemcacheBinaryConnection) -> bool { codec_inv(c.codec) }
    pub open spec fn conn_limit(c: MemcacheBinaryConnection) -> u32 { c.codec.item_size_limit }

    impl MemcacheBinaryConnection {
//@fn protocol/binary_connection.rs | impl MemcacheBinaryConnection | new | ret=r | safety=C10
        ensures
            conn_inv(r) && conn_limit(r) == item_size_limit, // @ob C13 conn.new.limit_plumbed
            r.stream == socket && r.buffer@ =~= Seq::<u8>::empty(), // @ob C09 conn.new.empty_buffer
//@endfn

//@fn protocol/binary_connection.rs | impl MemcacheBinaryConnection | read_frame | ret=r | async | safety=C10,C09,C13 | sigsub=Result<Option<BinaryRequest>, io::Error>=>core::result::Result<Option<BinaryRequest>, io::Error>
//@locals _extras_length,body_length,buffered
        requires
            conn_inv(*old(self)), !old(self).stream.shut(),
        ensures
            conn_inv(*final(self)) || r is Err, // @ob C09 read_frame.inv
            conn_limit(*final(self)) == conn_limit(*old(self)), // @ob C13 read_frame.limit_kept
            final(self).stream.sent() == old(self).stream.sent() && final(self).stream.shut() == old(self).stream.shut(), // @ob C12 read_frame.writes_nothing
            rf_post(stream_of(*old(self)), conn_limit(*old(self)), r, stream_of(*final(self))), // @ob C09,C13,C18,C12 read_frame.rf_post
//@loop 0
                invariant
                    conn_inv(*self), !self.stream.shut(), !old(self).stream.shut(),
                    conn_limit(*self) == conn_limit(*old(self)),
                    self.stream.sent() == old(self).stream.sent(),
                    stream_of(*self) =~= stream_of(*old(self)),
                decreases self.stream.wire().len(),   // C10: every iteration returns or consumes at least one wire byte
//@proof 0 | <start>
        hide(decode_post); hide(first_frame); hide(pend); hide(canon_p); hide(hdr_enc); hide(hdr_of);
//@proof 0 | if let Some(frame) = self.codec.decode(&mut self.buffer)? {
                let ghost c0 = self.codec; let ghost b0 = self.buffer@; let ghost w0 = self.stream.wire();
                let ghost p0 = canon_p(self.codec, self.buffer@);
                let ghost limit = self.codec.item_size_limit;
                proof { lemma_pend_canon(c0, b0); }
//@proof 0 | match frame {
                let ghost c1 = self.codec; let ghost b1 = self.buffer@;
//@proof 0 | return Ok(Some(BinaryRequest::ItemTooLarge(request)));
                        proof {
                            lemma_rf_exit_too_large(p0, w0, limit, frame, c1, b1, buffered as int, self.stream.wire());
                        }
//@proof 0 | return Ok(Some(frame));
                        proof { lemma_rf_exit_frame(p0, w0, limit, frame, c1, b1); }
//@proof 0 | if 0 == self.stream.read_buf(&mut self.buffer)? {
            let ghost c1x = self.codec; let ghost b1x = self.buffer@;
            proof {
                lemma_rf_needmore(p0, limit, self.codec, self.buffer@);
                assert forall|x: Seq<u8>| #[trigger] canon_p(c1x, b1x + x) =~= canon_p(c1x, b1x) + x by { lemma_canon_append(c1x, b1x, x); }
            }
//@proofafter 0 | if 0 == self.stream.read_buf(&mut self.buffer)? {
                proof { lemma_rf_exit_eof(p0, w0, limit); }
//@endfn

//@fn protocol/binary_connection.rs | impl MemcacheBinaryConnection | skip_bytes | ret=r | async | safety=C10,C13,C09 | attr=#[verifier::loop_isolation(false)]
//@locals buffer_size,buffer,bytes_read,bytes_counter,difference
        requires
            !old(self).stream.shut(),
        ensures
            final(self).codec == old(self).codec && final(self).buffer == old(self).buffer, // @ob C13 skip_bytes.frame
            final(self).stream.sent() == old(self).stream.sent() && final(self).stream.shut() == old(self).stream.shut(), // @ob C12 skip_bytes.writes_nothing
            r is Ok ==> final(self).stream.wire() =~= old(self).stream.wire().subrange(min_int(bytes as int, old(self).stream.wire().len() as int), old(self).stream.wire().len() as int), // @ob C13 skip_bytes.consumes_exactly
//@loop 0
            invariant
                bytes > 0, buffer_size == 65536, bytes_counter < bytes,
                self.codec == old(self).codec && self.buffer == old(self).buffer,
                self.stream.sent() == old(self).stream.sent(), !self.stream.shut(), !old(self).stream.shut(),
                buffer@.len() == 0, 0 < buffer.cap() <= bytes - bytes_counter, buffer.cap() <= 65536,   // C10: scratch space is at most 64 KiB
                bytes_counter <= old(self).stream.wire().len(),
                self.stream.wire() =~= old(self).stream.wire().subrange(bytes_counter as int, old(self).stream.wire().len() as int),
            decreases bytes - bytes_counter,
//@endfn

//@fn protocol/binary_connection.rs | impl MemcacheBinaryConnection | write | ret=r | async | safety=C10,C11
        ensures
            final(self).codec == old(self).codec && final(self).buffer == old(self).buffer, // @ob C11 conn.write.frame
            final(self).stream.wire() == old(self).stream.wire() && final(self).stream.shut() == old(self).stream.shut(), // @ob C11 conn.write.reads_nothing
            r is Ok ==> final(self).stream.sent() =~= old(self).stream.sent() + wire_bytes(*msg), // @ob C11,C12 conn.write.whole_frame
            r is Err ==> partial_write(old(self).stream.sent(), final(self).stream.sent(), wire_bytes(*msg)), // @ob C12 conn.write.prefix_on_error
//@endfn

//@fn protocol/binary_connection.rs | impl MemcacheBinaryConnection | write_data_to_stream | ret=r | async | safety=C10,C11
        ensures
            final(self).codec == old(self).codec && final(self).buffer == old(self).buffer, // @ob C11 conn.write_data.frame
            final(self).stream.wire() == old(self).stream.wire() && final(self).stream.shut() == old(self).stream.shut(), // @ob C11 conn.write_data.reads_nothing
            r is Ok ==> final(self).stream.sent() =~= old(self).stream.sent() + msg.data@, // @ob C11 conn.write_data.whole
            r is Err ==> partial_write(old(self).stream.sent(), final(self).stream.sent(), msg.data@), // @ob C12 conn.write_data.prefix_on_error
//@endfn

//@fn protocol/binary_connection.rs | impl MemcacheBinaryConnection | shutdown | ret=r | async | safety=C10,C12
        ensures
            final(self).codec == old(self).codec && final(self).buffer == old(self).buffer, // @ob C12 conn.shutdown.frame
            final(self).stream.shut() && final(self).stream.sent() == old(self).stream.sent() && final(self).stream.wire() == old(self).stream.wire(), // @ob C12 conn.shutdown.marks_closed
//@endfn
    }
//@closed protocol/binary_connection.rs | impl MemcacheBinaryConnection
}

// ---- memcache_server/client_handler.rs (R3) -------------------------------------------------------------
pub mod client_handler {
    use vstd::prelude::*;
    use super::*;
    use super::binary_connection::*;
    use super::handler;
    use super::store as storage;
    use core::result::Result;
//@consts memcache_server/client_handler.rs | -
//@items memcache_server/client_handler.rs | struct ClientConfig

//@fields memcache_server/client_handler.rs | struct Client | stream,addr,config,handler,limit_connections
    pub struct Client {
        pub stream: MemcacheBinaryConnection,
        pub addr: SocketAddr,
        pub config: ClientConfig,
        pub handler: handler::BinaryHandler,
        pub limit_connections: Semaphore,        // R4: Arc<Semaphore>; slot accounting (Drop) is outside reach - C17
    }

    // ASSUMED about the environment, at the start of every request (neither is established by a contract):
    // the CAS counter has not reached 2^64-1, and no stored value has reached 4 GiB - 512 bytes.
    #[verifier::external_body]
    pub proof fn axiom_environment(s: storage::MemcStore)
        ensures storage::mc_room(s), vals_small(s.store.memory@),
    { }

    pub open spec fn cl_inv(c: Client) -> bool { conn_inv(c.stream) && storage::mc_inv(c.handler.storage) }
    pub open spec fn cl_sent(c: Client) -> Seq<u8> { c.stream.stream.sent() }

    // C12: what handling one decoded request does to the connection and the store
    pub open spec fn request_post(q: ReqView, c0: Client, c1: Client, close: bool) -> bool {
        if q.kind is QuitQuietly {
            // quitq: no answer, nothing executed, connection closed
            &&& close && cl_sent(c1) == cl_sent(c0) && c1.handler.storage == c0.handler.storage && c1.stream.stream.shut()
        } else {
            exists|resp: Option<BinaryResponse>| #[trigger] is_opt_resp(resp) && handle_post(q, c0.handler.storage, c1.handler.storage, resp) && match resp {
                // exactly one response, written whole; quit is answered and then the connection is closed
                Some(x) => {
                    ||| (cl_sent(c1) =~= cl_sent(c0) + wire_bytes(x) && close == (x is Quit) && (close ==> c1.stream.stream.shut()) && (!close ==> c1.stream.stream.shut() == c0.stream.stream.shut()))
                    ||| (close && partial_write(cl_sent(c0), cl_sent(c1), wire_bytes(x)))      // the write failed: close
                },
                // quiet command that stays silent: nothing written, connection stays open
                None => cl_sent(c1) == cl_sent(c0) && !close && c1.stream.stream.shut() == c0.stream.stream.shut(),
            }
        }
    }

//@include lemmas/session.rs

    impl Client {
//@fn memcache_server/client_handler.rs | impl Client | new | ret=r | safety=C10 | sigsub=Arc<storage::MemcStore>=>storage::MemcStore | sigsub=Arc<Semaphore>=>Semaphore
        ensures
            conn_limit(r.stream) == config.item_memory_limit, // @ob C13 client.new.limit_plumbed
            conn_inv(r.stream) && r.stream.stream == socket && r.handler.storage == store, // @ob C12 client.new.wiring
//@endfn

//@fn memcache_server/client_handler.rs | impl Client | handle | async | safety=C10,C12 | attr=#[verifier::exec_allows_no_decreases_clause]
//@locals client_close
        requires
            cl_inv(*old(self)), !old(self).stream.stream.shut(),
        ensures
            storage::mc_inv(final(self).handler.storage), // @ob C18 client.handle.store_consistent_at_exit
            // C12/C18 for the whole connection: see specs/lemmas/session.rs
            session_ok(*old(self), *final(self), conn_limit(old(self).stream)), // @ob C12,C18,C09 client.handle.session
//@loop 0
            invariant
                cl_inv(*self), !self.stream.stream.shut(),     // C12: the loop only continues on a connection that has not been closed
                conn_limit(self.stream) == conn_limit(old(self).stream),
                lim == conn_limit(old(self).stream),
                session_inv(g_steps, g_sts, g_ress, *old(self), *self, lim),
//@proof 0 | <start>
        hide(rf_post); hide(request_post); hide(first_frame); hide(handle_post); hide(loud_post); hide(canon_p); hide(hdr_enc); hide(stream_of); hide(req_wf);
        hide(session_inv); hide(session_ok); hide(session_end); hide(step_done); hide(step_cut); hide(frames); hide(run_ok); hide(chain); hide(flat);
        let ghost lim = conn_limit(self.stream);
        let ghost mut g_steps: Seq<Step> = Seq::<Step>::empty();
        let ghost mut g_sts: Seq<Seq<u8>> = seq![stream_of(self.stream)];
        let ghost mut g_ress: Seq<core::result::Result<Option<BinaryRequest>, io::Error>> = Seq::<core::result::Result<Option<BinaryRequest>, io::Error>>::empty();
        proof { lemma_session_start(*self, lim); }
//@proof 0 | match timeout(
            let ghost s_before = stream_of(self.stream); let ghost c_a = *self;
//@proof 0 | let client_close = self.handle_frame(req_or_none);
                    let ghost c_b = *self;
                    proof { if req_or_none is Ok && req_or_none->Ok_0 is Some { lemma_rf_wf(s_before, lim, req_or_none, stream_of(self.stream)); } }
//@proofafter 0 | let client_close = self.handle_frame(req_or_none);
                    proof {
                        if req_or_none is Ok && req_or_none->Ok_0 is Some {
                            let st = lemma_session_step(g_steps, g_sts, g_ress, *old(self), c_a, c_b, *self, req_or_none, client_close, lim);
                            if !client_close {
                                g_steps = g_steps.push(st); g_sts = g_sts.push(stream_of(c_b.stream)); g_ress = g_ress.push(req_or_none);
                            }
                        } else {
                            lemma_session_stop(g_steps, g_sts, g_ress, *old(self), c_a, *self, lim);
                        }
                    }
//@proof 1 | return;
                    proof { lemma_session_stop(g_steps, g_sts, g_ress, *old(self), c_a, *self, lim); }
//@endfn

//@fn memcache_server/client_handler.rs | impl Client | handle_frame | ret=r | async | safety=C10,C12,C18 | sigsub=Result<Option<BinaryRequest>, io::Error>=>core::result::Result<Option<BinaryRequest>, io::Error>
        requires
            storage::mc_inv(old(self).handler.storage), req is Ok ==> conn_inv(old(self).stream), !old(self).stream.stream.shut(),
            req is Ok && req->Ok_0 is Some ==> req_wf(req_view(req->Ok_0->Some_0)),
        ensures
            storage::mc_inv(final(self).handler.storage) && (!r ==> cl_inv(*final(self))) && conn_limit(final(self).stream) == conn_limit(old(self).stream), // @ob C12 client.handle_frame.inv
            stream_of(final(self).stream) == stream_of(old(self).stream), // @ob C09,C12 client.handle_frame.reads_nothing
            // C18: end of stream, a read error and an invalid frame close the connection without executing anything
            !(req is Ok && req->Ok_0 is Some) ==> r && final(self).handler.storage == old(self).handler.storage && cl_sent(*final(self)) == cl_sent(*old(self)), // @ob C18,C12 client.handle_frame.fault_closes_without_executing
            req is Ok && req->Ok_0 is Some ==> request_post(req_view(req->Ok_0->Some_0), *old(self), *final(self), r), // @ob C12,C18,C19 client.handle_frame.request_post
            !r ==> !final(self).stream.stream.shut(), // @ob C12 client.handle_frame.open_iff_continue
//@endfn

//@fn memcache_server/client_handler.rs | impl Client | handle_request | ret=r | async | safety=C10,C12
        requires
            cl_inv(*old(self)), !old(self).stream.stream.shut(), req_wf(req_view(request)),
        ensures
            cl_inv(*final(self)) && conn_limit(final(self).stream) == conn_limit(old(self).stream), // @ob C12 client.handle_request.inv
            stream_of(final(self).stream) == stream_of(old(self).stream), // @ob C09,C12 client.handle_request.reads_nothing
            request_post(req_view(request), *old(self), *final(self), r), // @ob C12,C18,C19 client.handle_request.request_post
            !r ==> !final(self).stream.stream.shut(), // @ob C12 client.handle_request.open_iff_continue
//@proof 0 | let resp = self.handler.handle_request(request);
        proof { axiom_environment(self.handler.storage); }
//@endfn
    }
//@closed memcache_server/client_handler.rs | impl Client

//@fn memcache_server/client_handler.rs | - | log_error | safety=C10
//@endfn
}

// ---- memcache/random_policy.rs ---------------------------------------------------------------------------
pub mod random_policy {
    use vstd::prelude::*;
    use super::*;
    use super::atomic;

//@consts memcache/random_policy.rs | -
//@fields memcache/random_policy.rs | struct RandomPolicy | store,memory_limit,memory_usage
    pub struct RandomPolicy {
        pub store: MemoryStore,                 // R4: Arc<dyn Cache + Send + Sync>, instantiated as builder.rs does for policy Random
        pub memory_limit: u64,
        pub memory_usage: atomic::AtomicU64,
    }

    // C14/C15: the size the policy charges for a record (Record::len)
    pub open spec fn size_of_item(i: Item) -> int { 24 + i.value.len() as int }
    pub open spec fn usage(p: RandomPolicy) -> int { p.memory_usage.val() as int }
    pub open spec fn rp_inv(p: RandomPolicy) -> bool { ms_inv(p.store) }
    // everything but the accounting counter and the map content is untouched
    pub open spec fn rp_frame(a: RandomPolicy, b: RandomPolicy) -> bool {
        rp_inv(b) && b.memory_limit == a.memory_limit && b.store.timer.now() == a.store.timer.now()
    }
    // no wrap-around of the accounting arithmetic in this call (ASSUMED small enough: usage and sizes below 2^62)
    pub open spec fn rp_small(p: RandomPolicy) -> bool { p.memory_usage.val() < 0x4000_0000_0000_0000 }

    impl RandomPolicy {
//@fn memcache/random_policy.rs | impl RandomPolicy | new | ret=r | safety=C10 | sigsub=Arc<dyn Cache + Send + Sync>=>MemoryStore
        ensures
            r.store == store && r.memory_limit == memory_limit && usage(r) == 0, // @ob C15,C14 policy.new.starts_at_zero
//@endfn

        // incr_mem_usage: FnMut closure with captured counters handed to remove_if, iterator adapters, rand - outside
        // Verus.  ASSUMED here: without memory pressure nothing is evicted and the counter grows by `value`;
        // under pressure only a sub-map of the content survives.  (Kani harness policy_evict_step where it finishes.)
//@fn memcache/random_policy.rs | impl RandomPolicy | incr_mem_usage | ret=r | mutself | safety=C10 | assumed=kani:policy_evict_step
        requires
            rp_inv(*old(self)),
        ensures
            rp_frame(*old(self), *final(self)) && final(self).store.cas_id == old(self).store.cas_id,
            final(self).store.memory@.submap_of(old(self).store.memory@),
            usage(*old(self)) <= old(self).memory_limit ==> final(self).store.memory@ == old(self).store.memory@
                && final(self).memory_usage.val() == ((usage(*old(self)) + value) % 0x1_0000_0000_0000_0000) as u64,
//@endfn

//@fn memcache/random_policy.rs | impl RandomPolicy | decr_mem_usage | ret=r | mutself | safety=C10
        ensures
            r == old(self).memory_usage.val() && final(self).memory_usage.val() == ((usage(*old(self)) - value) % 0x1_0000_0000_0000_0000) as u64, // @ob C15 policy.decr.exact
            final(self).store == old(self).store && final(self).memory_limit == old(self).memory_limit, // @ob C15 policy.decr.frame
//@endfn
    }

    impl CacheImplDetails for RandomPolicy {
        open spec fn cview(&self) -> CView { self.store.memory@ }
        open spec fn now(&self) -> u64 { self.store.timer.now() }
        open spec fn cas_next(&self) -> u64 { self.store.cas_id.val() }
        open spec fn inv(&self) -> bool { ms_inv(self.store) }

//@fn memcache/random_policy.rs | impl CacheImplDetails for RandomPolicy | get_by_key | ret=r | mutself | safety=C10
            ensures
                usage(*final(self)) == usage(*old(self)), // @ob C15 policy.get_by_key.accounting
//@endfn

//@fn memcache/random_policy.rs | impl CacheImplDetails for RandomPolicy | check_if_expired | ret=r | mutself | safety=C10
            ensures
                // C15: an expired record collected here leaves the store, so it has to leave the accounting too
                r && old(self).store.memory@.contains_key(key@) ==> usage(*final(self)) == usage(*old(self)) - size_of_item(old(self).store.memory@[key@]), // @ob C15 policy.check_if_expired.collect_accounted
                !r ==> usage(*final(self)) == usage(*old(self)), // @ob C15 policy.check_if_expired.live_unchanged
//@endfn
    }

    impl Cache for RandomPolicy {
//@fn memcache/random_policy.rs | impl Cache for RandomPolicy | get | ret=r | mutself | safety=C10
            ensures
                final(self).memory_limit == old(self).memory_limit, // @ob C15 policy.get.frame
                r is Ok ==> usage(*final(self)) == usage(*old(self)), // @ob C15 policy.get.hit_unchanged
                // C15: a miss that collected an expired record removed it from the store: the accounting must follow
                r is Err && old(self).store.memory@.contains_key(key@) ==> usage(*final(self)) == usage(*old(self)) - size_of_item(old(self).store.memory@[key@]), // @ob C15 policy.get.expired_accounted
//@endfn
    }

    impl RandomPolicy {
        // The remaining methods of `impl Cache for RandomPolicy` (R8: verified as inherent methods)
//@fn memcache/random_policy.rs | impl Cache for RandomPolicy | set | ret=r | mutself | safety=C10,C14
        requires
            rp_inv(*old(self)), cas_room(old(self).store.cas_id.val()), rp_small(*old(self)), record.value@.len() < 0x4000_0000_0000_0000,
        ensures
            rp_frame(*old(self), *final(self)), // @ob C15 policy.set.frame
            // C01: with the limit not reached the store behaves exactly as without the policy
            usage(*old(self)) <= old(self).memory_limit ==> post_set(old(self).store.memory@, old(self).store.cas_id.val(), old(self).store.timer.now(), key@, record.value@, record.header.flags, record.header.time_to_live, record.header.cas,
                 r is Ok, r is Err && r->Err_0 == CacheError::KeyExists, r is Err && r->Err_0 == CacheError::NotFound, if r is Ok { r->Ok_0.cas } else { 0 }, final(self).store.memory@, final(self).store.cas_id.val()), // @ob C01,C15,C08,C02,C05,C06,C07 policy.set.no_pressure_same_as_store
            // C15 accounting, one obligation per case (no memory pressure: nothing evicted)
            usage(*old(self)) <= old(self).memory_limit && r is Ok && !old(self).store.memory@.contains_key(key@)
                ==> usage(*final(self)) == usage(*old(self)) + 24 + record.value@.len(), // @ob C15 policy.set.new_key_accounted
            usage(*old(self)) <= old(self).memory_limit && r is Ok && old(self).store.memory@.contains_key(key@)
                ==> usage(*final(self)) == usage(*old(self)) + 24 + record.value@.len() - size_of_item(old(self).store.memory@[key@]), // @ob C15 policy.set.overwrite_accounted
            usage(*old(self)) <= old(self).memory_limit && r is Err
                ==> usage(*final(self)) == usage(*old(self)), // @ob C15 policy.set.rejected_accounted
//@endfn

//@fn memcache/random_policy.rs | impl Cache for RandomPolicy | delete | ret=r | mutself | safety=C10
        requires
            rp_inv(*old(self)), rp_small(*old(self)),
            forall|k: Seq<u8>| #[trigger] old(self).store.memory@.contains_key(k) ==> size_of_item(old(self).store.memory@[k]) <= usage(*old(self)),   // ASSUMED: no single record is charged more than the total
        ensures
            rp_frame(*old(self), *final(self)), // @ob C15 policy.delete.frame
            post_delete(old(self).store.memory@, key@, header.cas, r is Ok, r is Err && r->Err_0 == CacheError::NotFound, r is Err && r->Err_0 == CacheError::KeyExists, final(self).store.memory@), // @ob C08,C02 policy.delete.post_delete
            r is Ok ==> usage(*final(self)) == usage(*old(self)) - size_of_item(old(self).store.memory@[key@]), // @ob C15 policy.delete.ok_accounted
            r is Err ==> usage(*final(self)) == usage(*old(self)), // @ob C15 policy.delete.err_accounted
//@endfn

//@fn memcache/random_policy.rs | impl Cache for RandomPolicy | remove | ret=r | mutself | safety=C10
        requires
            rp_inv(*old(self)), rp_small(*old(self)),
            forall|k: Seq<u8>| #[trigger] old(self).store.memory@.contains_key(k) ==> size_of_item(old(self).store.memory@[k]) <= usage(*old(self)),
        ensures
            rp_frame(*old(self), *final(self)), // @ob C15 policy.remove.frame
            final(self).store.memory@ =~= old(self).store.memory@.remove(key@), // @ob C15 policy.remove.exact
            r is Some ==> usage(*final(self)) == usage(*old(self)) - size_of_item(old(self).store.memory@[key@]), // @ob C15 policy.remove.some_accounted
            r is None ==> usage(*final(self)) == usage(*old(self)), // @ob C15 policy.remove.none_accounted
//@endfn

//@fn memcache/random_policy.rs | impl Cache for RandomPolicy | flush | mutself | safety=C10
        requires
            rp_inv(*old(self)),
        ensures
            rp_frame(*old(self), *final(self)), // @ob C15 policy.flush.frame
            post_flush(old(self).store.memory@, old(self).store.timer.now(), header.time_to_live, final(self).store.memory@), // @ob C08,C05 policy.flush.post_flush
            // C15: "returns to its initial value whenever the store returns to empty"
            header.time_to_live == 0 ==> usage(*final(self)) == 0, // @ob C15,C08 policy.flush.now_resets_accounting
            header.time_to_live != 0 ==> usage(*final(self)) == usage(*old(self)), // @ob C15,C08 policy.flush.delayed_unchanged
//@endfn

//@fn memcache/random_policy.rs | impl Cache for RandomPolicy | len | ret=r | safety=C10
        ensures
            r == self.store.memory@.dom().len(), // @ob C14 policy.len.exact
//@endfn

//@fn memcache/random_policy.rs | impl Cache for RandomPolicy | is_empty | ret=r | safety=C10
        ensures
            r == (self.store.memory@.dom().len() == 0), // @ob C14 policy.is_empty.exact
//@endfn
    }
//@closed memcache/random_policy.rs | impl Cache for RandomPolicy | allow=as_read_only,remove_if
//@closed memcache/random_policy.rs | impl RandomPolicy
//@closed memcache/random_policy.rs | impl CacheImplDetails for RandomPolicy
}

// ---- memcache_server/memc_tcp.rs: only the plumbing of the configured limits (the accept loop is outside reach) ----
pub mod memc_tcp {
    use vstd::prelude::*;
    use super::*;
    use super::client_handler;
    use super::store as storage;
//@consts memcache_server/memc_tcp.rs | -
//@items memcache_server/memc_tcp.rs | struct MemcacheServerConfig

    impl MemcacheServerConfig {
//@consts memcache_server/memc_tcp.rs | impl MemcacheServerConfig
//@fn memcache_server/memc_tcp.rs | impl MemcacheServerConfig | new | ret=r | safety=C10
        ensures
            r.item_memory_limit == item_memory_limit && r.connection_limit == connection_limit && r.timeout_secs == timeout_secs && r.listen_backlog == listen_backlog, // @ob C13 server_config.new.limits_plumbed
//@endfn
    }

//@fields memcache_server/memc_tcp.rs | struct MemcacheTcpServer | storage,limit_connections,config
    pub struct MemcacheTcpServer {
        pub storage: storage::MemcStore,        // R4: Arc<storage::MemcStore>
        pub limit_connections: Semaphore,       // R4: Arc<Semaphore>
        pub config: MemcacheServerConfig,
    }

    impl MemcacheTcpServer {
//@fn memcache_server/memc_tcp.rs | impl MemcacheTcpServer | get_client_config | ret=r | safety=C10
        ensures
            r.item_memory_limit == self.config.item_memory_limit, // @ob C13 tcp_server.client_config.item_limit_plumbed
            r.rx_timeout_secs == self.config.timeout_secs, // @ob C18 tcp_server.client_config.timeout_plumbed
//@endfn
    }
}

// ---- memcache_server/runtime_builder.rs: the functions start threads and runtimes and are outside any contract; the ONE
// statement of each that turns the parsed command line into the server configuration is sliced out (R14) and checked:
// the configured item size limit, connection limit and backlog are the ones handed to the server (C13; part of C20).
pub mod runtime_builder {
    use vstd::prelude::*;
    use super::*;
    pub mod memcache_server { pub use super::super::memc_tcp; }     // the path the sliced statement uses
    // stand-ins for the parsed command line (clap / byte_unit): only what the slices read.  ASSUMED.
    pub struct Byte { pub v: u64 }
    impl Byte { pub fn as_u64(&self) -> (r: u64) ensures r == self.v { self.v } }
    pub struct MemcrsArgs { pub connection_limit: u32, pub item_size_limit: Byte, pub backlog_limit: u32 }
    pub open spec fn config_plumbed(config: MemcrsArgs, c: memc_tcp::MemcacheServerConfig) -> bool {
        c.item_memory_limit == config.item_size_limit.v as u32 && c.connection_limit == config.connection_limit && c.listen_backlog == config.backlog_limit
    }
    pub fn current_thread_config(config: MemcrsArgs) -> (r: memc_tcp::MemcacheServerConfig)
        ensures config_plumbed(config, r), // @ob C13 runtime.current_thread.config_plumbed
    {
//@stmt memcache_server/runtime_builder.rs | - | create_current_thread_server | let memc_config =
        memc_config
    }
    pub fn threadpool_config(config: MemcrsArgs) -> (r: memc_tcp::MemcacheServerConfig)
        ensures config_plumbed(config, r), // @ob C13 runtime.threadpool.config_plumbed
    {
//@stmt memcache_server/runtime_builder.rs | - | create_threadpool_server | let memc_config =
        memc_config
    }
}

// ---- server/timer.rs: the clock only ever moves forward by one (what the "monotone clock" assumption rests on) ----
pub mod timer {
    use vstd::prelude::*;
    use super::*;
//@consts server/timer.rs | -
//@fields server/timer.rs | struct SystemTimer | seconds
    pub struct SystemTimer {
        pub seconds: AtomicU64,
    }
    impl SystemTimer {
//@fn server/timer.rs | impl SystemTimer | new | ret=r | safety=C10
        ensures
            r.seconds.val() == 0, // @ob C05 timer.new.starts_at_zero
//@endfn
//@fn server/timer.rs | impl Timer for SystemTimer | timestamp | ret=r | safety=C10
        ensures
            r == self.seconds.val(), // @ob C05 timer.timestamp.reads_clock
//@endfn
//@fn server/timer.rs | impl SetableTimer for SystemTimer | add_second | mutself | safety=C10
        ensures
            old(self).seconds.val() < 0xffff_ffff_ffff_ffff ==> final(self).seconds.val() == old(self).seconds.val() + 1, // @ob C05 timer.add_second.monotone_by_one
//@endfn
    }
//@closed server/timer.rs | impl SystemTimer | allow=run
}

//@probeinclude probes_bytes.rs
//@probeinclude probes_store.rs

} // verus!
fn main() {}
