// Unit codec_enc: the encoder half of memcrs/src/protocol/binary_codec.rs under contract.
#![allow(unused_imports, dead_code, unused_variables, unused_mut, unused_assignments, non_snake_case)]
use vstd::prelude::*;
use vstd::string::*;
verus! {

//@include prelude_std.rs
//@include prelude_bytes.rs

pub mod binary {
    use vstd::prelude::*;
    use super::Bytes;
//@items protocol/binary.rs | * *
}
//@consts protocol/binary_codec.rs | -
//@items protocol/binary_codec.rs | enum BinaryResponse, struct ResponseMessage, enum RequestParserState, struct MemcacheBinaryCodec

pub open spec fn resp_header(r: BinaryResponse) -> binary::ResponseHeader {
    match r {
        BinaryResponse::Error(x) => x.header,
        BinaryResponse::Get(x) => x.header,
        BinaryResponse::GetQuietly(x) => x.header,
        BinaryResponse::GetKey(x) => x.header,
        BinaryResponse::GetKeyQuietly(x) => x.header,
        BinaryResponse::Set(x) => x.header,
        BinaryResponse::Add(x) => x.header,
        BinaryResponse::Replace(x) => x.header,
        BinaryResponse::Append(x) => x.header,
        BinaryResponse::Prepend(x) => x.header,
        BinaryResponse::Version(x) => x.header,
        BinaryResponse::Noop(x) => x.header,
        BinaryResponse::Delete(x) => x.header,
        BinaryResponse::Flush(x) => x.header,
        BinaryResponse::Increment(x) => x.header,
        BinaryResponse::Decrement(x) => x.header,
        BinaryResponse::Quit(x) => x.header,
        BinaryResponse::Stats(x) => x.header,
    }
}
//@include wire_resp.rs

// ASSUMED contract on std: String::as_bytes gives the UTF-8 bytes
pub assume_specification[ String::as_bytes ](s: &String) -> (r: &[u8])
    ensures r@ == string_bytes(*s);

impl BinaryResponse {
//@fn protocol/binary_codec.rs | impl BinaryResponse | get_header | ret=r | safety=C10
    ensures
        *r == resp_header(*self), // @ob C11 response.get_header.exact
//@endfn
}

impl MemcacheBinaryCodec {
//@consts protocol/binary_codec.rs | impl MemcacheBinaryCodec

//@fn protocol/binary_codec.rs | impl MemcacheBinaryCodec | get_length | ret=r | safety=C10
    ensures
        r == 24 + resp_header(*msg).body_length + resp_header(*msg).extras_length, // @ob C10 codec.get_length.bounded
//@endfn

//@fn protocol/binary_codec.rs | impl MemcacheBinaryCodec | get_header | ret=r | safety=C10
    ensures
        *r == resp_header(*msg), // @ob C11 codec.get_header.exact
//@endfn

//@fn protocol/binary_codec.rs | impl MemcacheBinaryCodec | get_len_from_header | ret=r | safety=C10
    ensures
        r == 24 + header.body_length + header.extras_length, // @ob C10 codec.get_len_from_header.bounded
//@endfn

//@fn protocol/binary_codec.rs | impl MemcacheBinaryCodec | encode_message | ret=r | safety=C10,C11
//@contract encode_message.contract
//@endfn

//@fn protocol/binary_codec.rs | impl MemcacheBinaryCodec | encode_data | ret=r | safety=C10,C11
    ensures
        r.data@ =~= dst@ + payload_bytes(*msg), // @ob C11,C01,C07 encode_data.payload
//@endfn

//@fn protocol/binary_codec.rs | impl MemcacheBinaryCodec | write_msg | safety=C10,C11
    ensures
        final(dst)@ =~= old(dst)@ + wire_bytes(*msg), // @ob C11,C01,C02 write_msg.wire_bytes
//@endfn

//@fn protocol/binary_codec.rs | impl MemcacheBinaryCodec | write_header | safety=C10,C11
    ensures
        final(dst)@ =~= old(dst)@ + hdr_bytes(resp_header(*msg)), // @ob C11,C01,C02 write_header.hdr_bytes
//@endfn

//@fn protocol/binary_codec.rs | impl MemcacheBinaryCodec | write_header_impl | safety=C10,C11
    ensures
        final(dst)@ =~= old(dst)@ + hdr_bytes(*header), // @ob C11,C01,C02 write_header_impl.hdr_bytes
//@endfn

//@fn protocol/binary_codec.rs | impl MemcacheBinaryCodec | write_data | safety=C10,C11
    ensures
        final(dst)@ =~= old(dst)@ + payload_bytes(*msg), // @ob C11,C01,C07 write_data.payload
//@endfn

    // R8: body of `impl Encoder<BinaryResponse> for MemcacheBinaryCodec::encode`, verified as an inherent method
//@fn protocol/binary_codec.rs | impl Encoder<BinaryResponse> for MemcacheBinaryCodec | encode | ret=r | safety=C10,C11 | sigsub=Self::Error=>io::Error
    ensures
        r is Ok, // @ob C11 encode.never_fails
        final(dst)@ =~= old(dst)@ + wire_bytes(msg), // @ob C11,C01,C02,C12 encode.wire_bytes
//@endfn
}

// C11: a client can always find the next response: the header read back from the wire bytes gives the
// fields the handler set, and the frame is 24 + the announced body length whenever the announced length
// is the payload's length (which handle_post establishes - unit server).
pub proof fn lemma_be16(x: u16) // @ob C11 lemma.be16
    ensures (b16(x, 0) as int) * 256 + (b16(x, 1) as int) == x,
{
}
pub proof fn lemma_be32(x: u32) // @ob C11 lemma.be32
    ensures (b32(x, 0) as int) * 16777216 + (b32(x, 1) as int) * 65536 + (b32(x, 2) as int) * 256 + (b32(x, 3) as int) == x,
{
}
pub proof fn lemma_header_roundtrip(h: binary::ResponseHeader) // @ob C11 lemma.header_roundtrip
    ensures
        hdr_bytes(h).len() == 24,
        hdr_bytes(h)[0] == h.magic && hdr_bytes(h)[1] == h.opcode && be16_at(hdr_bytes(h), 2) == h.key_length
        && hdr_bytes(h)[4] == h.extras_length && hdr_bytes(h)[5] == h.data_type && be16_at(hdr_bytes(h), 6) == h.status
        && be32_at(hdr_bytes(h), 8) == h.body_length && be32_at(hdr_bytes(h), 12) == h.opaque && be64_at(hdr_bytes(h), 16) == h.cas,
{
    lemma_be16(h.key_length); lemma_be16(h.status); lemma_be32(h.body_length); lemma_be32(h.opaque);
    let hi = (h.cas / 4294967296) as u32; let lo = (h.cas % 4294967296) as u32;
    lemma_be32(hi); lemma_be32(lo);
    assert(hi as int * 4294967296 + lo as int == h.cas);
}
pub proof fn lemma_frame_length(r: BinaryResponse) // @ob C11 lemma.frame_length
    requires payload_bytes(r).len() == resp_header(r).body_length,
    ensures wire_bytes(r).len() == 24 + resp_header(r).body_length,
{
    lemma_header_roundtrip(resp_header(r));
}

} // verus!
fn main() {}
