// ---------------------------------------------------------------------------------------------
// Stand-ins for tokio's TcpStream / timeout and friends (DESIGN §4.4).  ASSUMED.
// R3: `async`/`.await` are dropped: a connection's task owns its state exclusively, so its code is a
// sequential coroutine; all nondeterminism of the socket (chunk sizes, EOF, errors, time-outs) is in the
// contracts below.
// ---------------------------------------------------------------------------------------------
// a failed write leaves what was sent before in place (and may have added part of the data; the
// connection is closed after a failed write, so which part does not matter to any property)
pub open spec fn partial_write(before: Seq<u8>, after: Seq<u8>, data: Seq<u8>) -> bool {
    before.len() <= after.len() <= before.len() + data.len() && after.subrange(0, before.len() as int) =~= before
}

#[verifier::external_body]
pub struct TcpStream { _p: core::marker::PhantomData<u8> }
impl TcpStream {
    pub uninterp spec fn wire(&self) -> Seq<u8>;   // everything the peer will still deliver before end-of-stream
    pub uninterp spec fn sent(&self) -> Seq<u8>;   // everything written to the peer so far
    pub uninterp spec fn shut(&self) -> bool;      // shutdown() has been called

    // AsyncReadExt::read_buf on a BytesMut: appends the next n bytes of the wire; n == 0 iff end of stream;
    // at most the spare capacity is read (64 bytes are reserved first if there is none - bytes' BufMut impl);
    // or fails (reset) at any time, in which case nothing is appended.
    #[verifier::external_body]
    pub fn read_buf(&mut self, buf: &mut BytesMut) -> (r: io::Result<usize>)
        requires !old(self).shut(),   // C12: nothing is read from a connection after quit/quitq closed it
        ensures
            final(self).sent() == old(self).sent() && final(self).shut() == old(self).shut(),
            r is Ok ==> {
                let n = r->Ok_0 as int;
                &&& n <= old(self).wire().len()
                &&& (n == 0 <==> old(self).wire().len() == 0)
                &&& n <= (if old(buf).cap() > old(buf)@.len() { old(buf).cap() - old(buf)@.len() } else { 64 })
                &&& final(buf)@ =~= old(buf)@ + old(self).wire().subrange(0, n)
                &&& final(self).wire() =~= old(self).wire().subrange(n, old(self).wire().len() as int)
                &&& final(buf).cap() == (if old(buf).cap() > old(buf)@.len() { old(buf).cap() as int } else { (old(buf)@.len() + 64) as int })
            },
            r is Err ==> final(buf)@ == old(buf)@ && final(buf).cap() == old(buf).cap(),
    { unimplemented!() }

    // AsyncWriteExt::write_all: everything is written, or it fails having written some prefix
    #[verifier::external_body]
    pub fn write_all(&mut self, data: &[u8]) -> (r: io::Result<()>)
        ensures
            final(self).wire() == old(self).wire() && final(self).shut() == old(self).shut(),
            r is Ok ==> final(self).sent() =~= old(self).sent() + data@,
            r is Err ==> partial_write(old(self).sent(), final(self).sent(), data@),
    { unimplemented!() }

    #[verifier::external_body]
    pub fn shutdown(&mut self) -> (r: io::Result<()>)
        ensures final(self).shut() && final(self).sent() == old(self).sent() && final(self).wire() == old(self).wire(),
    { unimplemented!() }
}

pub struct Elapsed {}
#[verifier::external_body]
pub struct Duration { _p: core::marker::PhantomData<u8> }
impl Duration {
    #[verifier::external_body]
    pub fn from_secs(s: u64) -> (r: Duration) { unimplemented!() }
}
// tokio::time::timeout(d, fut): R3 - the future has been run to completion before this is called; the
// time-out may then still discard its result (the caller closes the connection in that case).
#[verifier::external_body]
pub fn timeout<T>(d: Duration, x: T) -> (r: core::result::Result<T, Elapsed>)
    ensures r is Ok ==> r->Ok_0 == x,
{ unimplemented!() }

#[verifier::external_body]
pub struct SocketAddr { _p: core::marker::PhantomData<u8> }
#[verifier::external_body]
pub struct Semaphore { _p: core::marker::PhantomData<u8> }
