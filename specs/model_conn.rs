// ---------------------------------------------------------------------------------------------
// Connection-level specification (C09 at the socket, C13 skip, C18).  Spec only.
// The *stream* of a connection = the bytes it has buffered but not yet turned into a request (including a
// header already taken out of the buffer) followed by everything the peer will still deliver.
// ---------------------------------------------------------------------------------------------
pub open spec fn hdr_enc(h: binary::RequestHeader) -> Seq<u8> {
    seq![h.magic, h.opcode, b16(h.key_length, 0), b16(h.key_length, 1), h.extras_length, h.data_type, b16(h.vbucket_id, 0), b16(h.vbucket_id, 1),
         b32(h.body_length, 0), b32(h.body_length, 1), b32(h.body_length, 2), b32(h.body_length, 3),
         b32(h.opaque, 0), b32(h.opaque, 1), b32(h.opaque, 2), b32(h.opaque, 3),
         b32((h.cas / 4294967296) as u32, 0), b32((h.cas / 4294967296) as u32, 1), b32((h.cas / 4294967296) as u32, 2), b32((h.cas / 4294967296) as u32, 3),
         b32((h.cas % 4294967296) as u32, 0), b32((h.cas % 4294967296) as u32, 1), b32((h.cas % 4294967296) as u32, 2), b32((h.cas % 4294967296) as u32, 3)]
}
pub proof fn lemma_div_mod_digit(hi: int, lo: int, m: int) // @ob C09 lemma.div_mod_digit
    requires 0 <= lo < m, 0 <= hi,
    ensures (hi * m + lo) / m == hi, (hi * m + lo) % m == lo,
{
    vstd::arithmetic::div_mod::lemma_fundamental_div_mod_converse(hi * m + lo, m, hi, lo);
}
pub proof fn lemma_b16_bytes(a: u8, b: u8) // @ob C09 lemma.b16_bytes
    ensures b16((a as int * 256 + b as int) as u16, 0) == a, b16((a as int * 256 + b as int) as u16, 1) == b,
{
    lemma_div_mod_digit(a as int, b as int, 256);
}
pub proof fn lemma_b32_bytes(a: u8, b: u8, c: u8, d: u8) // @ob C09 lemma.b32_bytes
    ensures ({ let x = (a as int * 16777216 + b as int * 65536 + c as int * 256 + d as int) as u32;
               b32(x, 0) == a && b32(x, 1) == b && b32(x, 2) == c && b32(x, 3) == d }),
{
    let x = a as int * 16777216 + b as int * 65536 + c as int * 256 + d as int;
    let r24 = b as int * 65536 + c as int * 256 + d as int;
    lemma_div_mod_digit(a as int, r24, 16777216);
    let r16 = c as int * 256 + d as int;
    assert(x == (a as int * 256 + b as int) * 65536 + r16);
    lemma_div_mod_digit(a as int * 256 + b as int, r16, 65536);
    lemma_div_mod_digit(a as int, b as int, 256);
    assert(x == (a as int * 65536 + b as int * 256 + c as int) * 256 + d as int);
    lemma_div_mod_digit(a as int * 65536 + b as int * 256 + c as int, d as int, 256);
    lemma_div_mod_digit(a as int * 256 + b as int, c as int, 256);
}
pub proof fn lemma_b16_value(x: u16) // @ob C09 lemma.b16_value
    ensures (b16(x, 0) as int) * 256 + (b16(x, 1) as int) == x,
{
}
pub proof fn lemma_b32_value(x: u32) // @ob C09 lemma.b32_value
    ensures (b32(x, 0) as int) * 16777216 + (b32(x, 1) as int) * 65536 + (b32(x, 2) as int) * 256 + (b32(x, 3) as int) == x,
{
    let a = x as int / 256;
    let b = a / 256;
    let c = b / 256;
    assert(x as int == a * 256 + x as int % 256);
    assert(a == b * 256 + a % 256);
    assert(b == c * 256 + b % 256);
    assert(0 <= c < 256);
    assert(x as int / 65536 == b) by { vstd::arithmetic::div_mod::lemma_div_denominator(x as int, 256, 256); }
    assert(x as int / 16777216 == c) by { vstd::arithmetic::div_mod::lemma_div_denominator(x as int, 65536, 256); }
}
// decoding the encoding of a header gives the header back ...
pub proof fn lemma_hdr_dec_enc(h: binary::RequestHeader) // @ob C09 lemma.hdr_dec_enc
    ensures hdr_enc(h).len() == 24, hdr_of(hdr_enc(h)) == h,
{
    lemma_b16_value(h.key_length); lemma_b16_value(h.vbucket_id); lemma_b32_value(h.body_length); lemma_b32_value(h.opaque);
    let hi = (h.cas / 4294967296) as u32; let lo = (h.cas % 4294967296) as u32;
    lemma_b32_value(hi); lemma_b32_value(lo);
    assert(hi as int * 4294967296 + lo as int == h.cas);
}
// ... and encoding the header decoded from 24 bytes gives those bytes back: header <-> 24 bytes is a bijection
pub proof fn lemma_hdr_enc_dec(p: Seq<u8>) // @ob C09 lemma.hdr_enc_dec
    requires p.len() >= 24,
    ensures hdr_enc(hdr_of(p)) =~= p.subrange(0, 24),
{
    let h = hdr_of(p);
    lemma_b16_bytes(p[2], p[3]); lemma_b16_bytes(p[6], p[7]);
    lemma_b32_bytes(p[8], p[9], p[10], p[11]); lemma_b32_bytes(p[12], p[13], p[14], p[15]);
    lemma_b32_bytes(p[16], p[17], p[18], p[19]); lemma_b32_bytes(p[20], p[21], p[22], p[23]);
    let hi = (p[16] as int * 16777216 + p[17] as int * 65536 + p[18] as int * 256 + p[19] as int);
    let lo = (p[20] as int * 16777216 + p[21] as int * 65536 + p[22] as int * 256 + p[23] as int);
    assert(h.cas as int == hi * 4294967296 + lo);
    assert(h.cas as int / 4294967296 == hi);
    assert(h.cas as int % 4294967296 == lo);
}

// canonical pending stream of a decoder state
pub open spec fn canon_p(c: MemcacheBinaryCodec, buf: Seq<u8>) -> Seq<u8> {
    if st_none(c) { buf } else { hdr_enc(c.header) + buf }
}
pub open spec fn codec_inv(c: MemcacheBinaryCodec) -> bool {
    st_none(c) || (st_hdr(c) && header_ok(c.header) && c.header.body_length <= c.item_size_limit)
}
pub proof fn lemma_pend_canon(c: MemcacheBinaryCodec, buf: Seq<u8>) // @ob C09 lemma.pend_canon
    requires codec_inv(c),
    ensures pend(c, buf, canon_p(c, buf)),
{
    if !st_none(c) {
        lemma_hdr_dec_enc(c.header);
        let p = hdr_enc(c.header) + buf;
        assert(forall|i: int| 0 <= i < 24 ==> p[i] == hdr_enc(c.header)[i]);
        assert(hdr_of(p) == hdr_of(hdr_enc(c.header)));
        assert(p.subrange(24, p.len() as int) =~= buf);
    }
}
pub proof fn lemma_pend_unique(c: MemcacheBinaryCodec, buf: Seq<u8>, p: Seq<u8>) // @ob C09 lemma.pend_unique
    requires pend(c, buf, p),
    ensures p =~= canon_p(c, buf), codec_inv(c) || st_none(c),
{
    if !st_none(c) {
        lemma_hdr_enc_dec(p);
        assert(p =~= p.subrange(0, 24) + p.subrange(24, p.len() as int));
    }
}
pub proof fn lemma_canon_append(c: MemcacheBinaryCodec, buf: Seq<u8>, x: Seq<u8>) // @ob C09 lemma.canon_append
    ensures canon_p(c, buf + x) =~= canon_p(c, buf) + x,
{
}

pub open spec fn min_int(a: int, b: int) -> int { if a <= b { a } else { b } }

// what read_frame must deliver, for the stream S0 the connection had on entry and S1 it has on exit
pub open spec fn rf_post(s0: Seq<u8>, limit: u32, r: core::result::Result<Option<BinaryRequest>, io::Error>, s1: Seq<u8>) -> bool {
    match r {
        Ok(Some(x)) => match first_frame(s0, limit) {
            // C09: the request is the first frame of the stream, taken from exactly its 24 + body_length bytes
            FF::Frame(h, rest) => req_matches(x, h, rest) && s1 =~= s0.subrange(24 + h.body_length, s0.len() as int),
            // C13: an oversized request is reported header-only and exactly its body is discarded
            // (all of what is left of the stream if the peer stops sending inside it)
            FF::TooLarge(h) => same_req(req_view(x), too_large_req(h))
                && s1 =~= s0.subrange(min_int(24 + h.body_length, s0.len() as int), s0.len() as int),
            _ => false,
        },
        // C18: a clean end of stream is reported only when no complete request is pending
        Ok(None) => first_frame(s0, limit) is NeedMore,
        Err(_) => true,
    }
}

// ---- lemmas used at the exits of read_frame (they keep the loop's own verification condition small) ----
pub open spec fn ok_some(x: BinaryRequest) -> core::result::Result<Option<BinaryRequest>, io::Error> { Ok(Some(x)) }
pub open spec fn ok_none() -> core::result::Result<Option<BinaryRequest>, io::Error> { Ok(None) }

// decode answered "need more" on p0: the first frame of p0 is undecided and the pending stream is still p0
pub proof fn lemma_rf_needmore(p0: Seq<u8>, limit: u32, c1: MemcacheBinaryCodec, b1: Seq<u8>) // @ob C09 lemma.rf_needmore
    requires decode_post(p0, limit, ok_none(), c1, b1),
    ensures first_frame(p0, limit) is NeedMore, pend(c1, b1, p0), canon_p(c1, b1) =~= p0, codec_inv(c1),
{
    lemma_pend_unique(c1, b1, p0);
}

// decode returned an ordinary request x on p0: it is the first frame of the whole stream p0 + w0, and the
// connection's stream afterwards is the whole stream minus exactly that frame
pub proof fn lemma_rf_exit_frame(p0: Seq<u8>, w0: Seq<u8>, limit: u32, x: BinaryRequest, c1: MemcacheBinaryCodec, b1: Seq<u8>) // @ob C09 lemma.rf_exit_frame
    requires decode_post(p0, limit, ok_some(x), c1, b1), !(req_view(x).kind is ItemTooLarge),
    ensures rf_post(p0 + w0, limit, ok_some(x), canon_p(c1, b1) + w0), codec_inv(c1),
{
    let s0 = p0 + w0;
    lemma_first_frame_stable(p0, w0, limit);
    match first_frame(p0, limit) {
        FF::Frame(h, rest) => {
            assert(first_frame(s0, limit) is Frame);
            let rest2 = first_frame(s0, limit)->Frame_1;
            assert(rest2 =~= rest + w0);
            assert(same_req(expected_req(h, rest2), expected_req(h, rest)));
            assert(st_none(c1));
            assert(canon_p(c1, b1) + w0 =~= s0.subrange(24 + h.body_length, s0.len() as int));
        },
        _ => { },
    }
}

// decode reported an oversized request; `buffered` bytes of its body were dropped from the buffer and the
// socket skipped min(body - buffered, |w0|) more: exactly the body is gone (C13), for every split
pub proof fn lemma_rf_exit_too_large(p0: Seq<u8>, w0: Seq<u8>, limit: u32, x: BinaryRequest, c1: MemcacheBinaryCodec, b1: Seq<u8>, buffered: int, w1: Seq<u8>) // @ob C13 lemma.rf_exit_too_large
    requires
        decode_post(p0, limit, ok_some(x), c1, b1), req_view(x).kind is ItemTooLarge,
        buffered == min_int(req_view(x).header.body_length as int, b1.len() as int),
        w1 =~= w0.subrange(min_int(req_view(x).header.body_length - buffered, w0.len() as int), w0.len() as int),
    ensures rf_post(p0 + w0, limit, ok_some(x), canon_p(c1, b1.subrange(buffered, b1.len() as int)) + w1), codec_inv(c1),
{
    let s0 = p0 + w0;
    lemma_first_frame_stable(p0, w0, limit);
    match first_frame(p0, limit) {
        FF::TooLarge(h) => {
            assert(first_frame(s0, limit) == FF::TooLarge(h));
            assert(st_none(c1));
            assert(b1 =~= p0.subrange(24, p0.len() as int));
            let body = h.body_length as int;
            let s1 = b1.subrange(buffered, b1.len() as int) + w1;
            assert(s1 =~= s0.subrange(min_int(24 + body, s0.len() as int), s0.len() as int));
        },
        FF::Frame(h, rest) => { },
        _ => { },
    }
}

// end of stream while the first frame of p0 is undecided
pub proof fn lemma_rf_exit_eof(p0: Seq<u8>, w0: Seq<u8>, limit: u32) // @ob C18 lemma.rf_exit_eof
    requires first_frame(p0, limit) is NeedMore, w0.len() == 0,
    ensures first_frame(p0 + w0, limit) is NeedMore,
{
    assert(p0 + w0 =~= p0);
}

// every request read_frame returns is well-formed in the handler's sense
pub proof fn lemma_rf_wf(s0: Seq<u8>, limit: u32, r: core::result::Result<Option<BinaryRequest>, io::Error>, s1: Seq<u8>) // @ob C10,C12 lemma.rf_wf
    requires rf_post(s0, limit, r, s1), r is Ok, r->Ok_0 is Some,
    ensures req_wf(req_view(r->Ok_0->Some_0)),
{
    match first_frame(s0, limit) {
        FF::Frame(h, rest) => { lemma_decoded_req_wf(r->Ok_0->Some_0, h, rest); },
        _ => { },
    }
}
