// ---------------------------------------------------------------------------------------------
// Wire-level specification vocabulary (DESIGN §5).  Spec only: nothing here is executable and
// nothing here is assumed - these are definitions the contracts are written against.
// Written from the property statements C09/C10/C12/C13 and the memcached binary protocol layout.
// ---------------------------------------------------------------------------------------------
// the header the first 24 bytes of s denote
pub open spec fn hdr_of(s: Seq<u8>) -> binary::RequestHeader recommends s.len() >= 24 {
    binary::RequestHeader {
        magic: s[0],
        opcode: s[1],
        key_length: be16_at(s, 2),
        extras_length: s[4],
        data_type: s[5],
        vbucket_id: be16_at(s, 6),
        body_length: be32_at(s, 8),
        opaque: be32_at(s, 12),
        cas: be64_at(s, 16),
    }
}

// C10: wrong magic, opcode beyond the table, non-zero data type  => never executed
pub open spec fn header_ok(h: binary::RequestHeader) -> bool {
    h.magic == 0x80 && h.opcode < 0x25 && h.data_type == 0
}

pub open spec fn op_get_class(op: u8) -> bool { op == 0x00 || op == 0x09 || op == 0x0c || op == 0x0d }
pub open spec fn op_delete_class(op: u8) -> bool { op == 0x04 || op == 0x14 }
pub open spec fn op_set_class(op: u8) -> bool { op == 0x01 || op == 0x02 || op == 0x03 || op == 0x11 || op == 0x12 || op == 0x13 }
pub open spec fn op_append_class(op: u8) -> bool { op == 0x0e || op == 0x0f || op == 0x19 || op == 0x1a }
pub open spec fn op_incdec_class(op: u8) -> bool { op == 0x05 || op == 0x06 || op == 0x15 || op == 0x16 }
pub open spec fn op_header_only_class(op: u8) -> bool { op == 0x0a || op == 0x07 || op == 0x17 || op == 0x0b || op == 0x10 }
pub open spec fn op_flush_class(op: u8) -> bool { op == 0x08 || op == 0x18 }
// opcodes of the protocol table that memc-rs does not implement (touch, gat, gatq, sasl*, gatk, gatkq)
pub open spec fn op_unimplemented(op: u8) -> bool {
    op == 0x1c || op == 0x1d || op == 0x1e || op == 0x20 || op == 0x21 || op == 0x22 || op == 0x23 || op == 0x24
}
pub open spec fn op_known(op: u8) -> bool {
    op_get_class(op) || op_delete_class(op) || op_set_class(op) || op_append_class(op) || op_incdec_class(op)
    || op_header_only_class(op) || op_flush_class(op) || op_unimplemented(op)
}

// C10, general rejection rule: key longer than 250, more than 20 extras bytes, a missing required
// key, a body shorter than key+extras  => never executed
pub open spec fn general_ok(h: binary::RequestHeader, key_required: bool) -> bool {
    h.extras_length <= 20 && h.key_length <= 250 && (key_required ==> h.key_length != 0)
    && h.body_length >= h.key_length + h.extras_length
}

pub open spec fn key_required(op: u8) -> bool {
    op_get_class(op) || op_delete_class(op) || op_set_class(op) || op_append_class(op) || op_incdec_class(op)
}

// C09: a request is taken from exactly the 24 + body_length bytes its header announces.  The body of
// each command has a fixed layout  extras ++ key ++ value ; a frame whose announced lengths do not fit
// the layout of its opcode cannot be taken from exactly its own bytes and is refused (connection
// closed) - the reading of C09's "or the connection is closed" that this check uses.
pub open spec fn layout_ok(h: binary::RequestHeader) -> bool {
    let op = h.opcode;
    let k = h.key_length as int;
    let e = h.extras_length as int;
    let b = h.body_length as int;
    if op_get_class(op) || op_delete_class(op) { general_ok(h, true) && e == 0 && b == k }
    else if op_set_class(op) { general_ok(h, true) && e == 8 }
    else if op_append_class(op) { general_ok(h, true) && e == 0 }
    else if op_incdec_class(op) { general_ok(h, true) && e == 20 && b == k + 20 }
    else if op_header_only_class(op) { general_ok(h, false) && e == 0 && k == 0 && b == 0 }
    else if op_flush_class(op) { general_ok(h, false) && k == 0 && (e == 0 || e == 4) && b == e }
    else if op_unimplemented(op) { general_ok(h, false) }
    else { false }
}

// Frames that an implementation may either execute (exactly as `expected_req` says, from exactly their
// own bytes) or refuse: counters whose body has the counter layout (8+8+4 bytes, then the key) but
// whose extras_length field does not say 20.  The statements do not decide this case.
pub open spec fn layout_lenient(h: binary::RequestHeader) -> bool {
    layout_ok(h) || (op_incdec_class(h.opcode) && general_ok(h, true) && h.body_length == h.key_length + 20)
}

pub enum RK {
    Delete, DeleteQuiet, Get, GetQuietly, GetKey, GetKeyQuietly, Set, SetQuietly, Append, AppendQuietly,
    Prepend, PrependQuietly, Add, AddQuietly, Replace, ReplaceQuietly, Increment, IncrementQuiet,
    Decrement, DecrementQuiet, Noop, Flush, FlushQuietly, Version, Quit, QuitQuietly, ItemTooLarge, Stats, NotSupported,
}

pub struct ReqView {
    pub kind: RK,
    pub header: binary::RequestHeader,
    pub key: Seq<u8>,
    pub value: Seq<u8>,
    pub flags: u32,
    pub expiration: u32,
    pub delta: u64,
    pub initial: u64,
}

// field-wise equality of request views (sequences compared extensionally)
pub open spec fn same_req(a: ReqView, b: ReqView) -> bool {
    a.kind == b.kind && a.header == b.header && a.key =~= b.key && a.value =~= b.value && a.flags == b.flags
    && a.expiration == b.expiration && a.delta == b.delta && a.initial == b.initial
}

pub open spec fn rv(kind: RK, header: binary::RequestHeader, key: Seq<u8>, value: Seq<u8>, flags: u32, expiration: u32, delta: u64, initial: u64) -> ReqView {
    ReqView { kind, header, key, value, flags, expiration, delta, initial }
}
pub open spec fn rv_key(kind: RK, r: binary::GetRequest) -> ReqView { rv(kind, r.header, r.key@, Seq::empty(), 0, 0, 0, 0) }
pub open spec fn rv_set(kind: RK, r: binary::SetRequest) -> ReqView { rv(kind, r.header, r.key@, r.value@, r.flags, r.expiration, 0, 0) }
pub open spec fn rv_app(kind: RK, r: binary::AppendRequest) -> ReqView { rv(kind, r.header, r.key@, r.value@, 0, 0, 0, 0) }
pub open spec fn rv_inc(kind: RK, r: binary::IncrementRequest) -> ReqView { rv(kind, r.header, r.key@, Seq::empty(), 0, r.expiration, r.delta, r.initial) }
pub open spec fn rv_hdr(kind: RK, r: binary::Request) -> ReqView { rv(kind, r.header, Seq::empty(), Seq::empty(), 0, 0, 0, 0) }
pub open spec fn rv_flush(kind: RK, r: binary::FlushRequest) -> ReqView { rv(kind, r.header, Seq::empty(), Seq::empty(), 0, r.expiration, 0, 0) }

pub open spec fn req_view(r: BinaryRequest) -> ReqView {
    match r {
        BinaryRequest::Delete(x) => rv_key(RK::Delete, x),
        BinaryRequest::DeleteQuiet(x) => rv_key(RK::DeleteQuiet, x),
        BinaryRequest::Get(x) => rv_key(RK::Get, x),
        BinaryRequest::GetQuietly(x) => rv_key(RK::GetQuietly, x),
        BinaryRequest::GetKey(x) => rv_key(RK::GetKey, x),
        BinaryRequest::GetKeyQuietly(x) => rv_key(RK::GetKeyQuietly, x),
        BinaryRequest::Set(x) => rv_set(RK::Set, x),
        BinaryRequest::SetQuietly(x) => rv_set(RK::SetQuietly, x),
        BinaryRequest::Append(x) => rv_app(RK::Append, x),
        BinaryRequest::AppendQuietly(x) => rv_app(RK::AppendQuietly, x),
        BinaryRequest::Prepend(x) => rv_app(RK::Prepend, x),
        BinaryRequest::PrependQuietly(x) => rv_app(RK::PrependQuietly, x),
        BinaryRequest::Add(x) => rv_set(RK::Add, x),
        BinaryRequest::AddQuietly(x) => rv_set(RK::AddQuietly, x),
        BinaryRequest::Replace(x) => rv_set(RK::Replace, x),
        BinaryRequest::ReplaceQuietly(x) => rv_set(RK::ReplaceQuietly, x),
        BinaryRequest::Increment(x) => rv_inc(RK::Increment, x),
        BinaryRequest::IncrementQuiet(x) => rv_inc(RK::IncrementQuiet, x),
        BinaryRequest::Decrement(x) => rv_inc(RK::Decrement, x),
        BinaryRequest::DecrementQuiet(x) => rv_inc(RK::DecrementQuiet, x),
        BinaryRequest::Noop(x) => rv_hdr(RK::Noop, x),
        BinaryRequest::Flush(x) => rv_flush(RK::Flush, x),
        BinaryRequest::FlushQuietly(x) => rv_flush(RK::FlushQuietly, x),
        BinaryRequest::Version(x) => rv_hdr(RK::Version, x),
        BinaryRequest::Quit(x) => rv_hdr(RK::Quit, x),
        BinaryRequest::QuitQuietly(x) => rv_hdr(RK::QuitQuietly, x),
        BinaryRequest::ItemTooLarge(x) => rv_set(RK::ItemTooLarge, x),
        BinaryRequest::Stats(x) => rv_hdr(RK::Stats, x),
        BinaryRequest::NotSupported(x) => rv_hdr(RK::NotSupported, x),
    }
}

pub open spec fn kind_of_opcode(op: u8) -> RK {
    if op == 0x00 { RK::Get } else if op == 0x09 { RK::GetQuietly } else if op == 0x0c { RK::GetKey } else if op == 0x0d { RK::GetKeyQuietly }
    else if op == 0x04 { RK::Delete } else if op == 0x14 { RK::DeleteQuiet }
    else if op == 0x01 { RK::Set } else if op == 0x11 { RK::SetQuietly } else if op == 0x02 { RK::Add } else if op == 0x12 { RK::AddQuietly }
    else if op == 0x03 { RK::Replace } else if op == 0x13 { RK::ReplaceQuietly }
    else if op == 0x0e { RK::Append } else if op == 0x19 { RK::AppendQuietly } else if op == 0x0f { RK::Prepend } else if op == 0x1a { RK::PrependQuietly }
    else if op == 0x05 { RK::Increment } else if op == 0x15 { RK::IncrementQuiet } else if op == 0x06 { RK::Decrement } else if op == 0x16 { RK::DecrementQuiet }
    else if op == 0x0a { RK::Noop } else if op == 0x07 { RK::Quit } else if op == 0x17 { RK::QuitQuietly } else if op == 0x0b { RK::Version }
    else if op == 0x08 { RK::Flush } else if op == 0x18 { RK::FlushQuietly }
    else if op == 0x10 { RK::Stats }
    else { RK::NotSupported }
}

// The request a complete, layout-correct frame denotes: header h, and `b` = the stream after the header
// (b.len() >= h.body_length; only the first h.body_length bytes of b are looked at - lemma_expected_req_prefix).
pub open spec fn expected_req(h: binary::RequestHeader, b: Seq<u8>) -> ReqView {
    let op = h.opcode;
    let k = h.key_length as int;
    let n = h.body_length as int;
    let kind = kind_of_opcode(op);
    if op_get_class(op) || op_delete_class(op) { rv(kind, h, b.subrange(0, k), Seq::empty(), 0, 0, 0, 0) }
    else if op_set_class(op) { rv(kind, h, b.subrange(8, 8 + k), b.subrange(8 + k, n), be32_at(b, 0), be32_at(b, 4), 0, 0) }
    else if op_append_class(op) { rv(kind, h, b.subrange(0, k), b.subrange(k, n), 0, 0, 0, 0) }
    else if op_incdec_class(op) { rv(kind, h, b.subrange(20, 20 + k), Seq::empty(), 0, be32_at(b, 16), be64_at(b, 0), be64_at(b, 8)) }
    else if op_flush_class(op) { rv(kind, h, Seq::empty(), Seq::empty(), 0, if h.extras_length == 4 { be32_at(b, 0) } else { 0 }, 0, 0) }
    else { rv(kind, h, Seq::empty(), Seq::empty(), 0, 0, 0, 0) }
}

// what the decoder must return for the request ItemTooLarge (C13): header only, nothing from the body
pub open spec fn too_large_req(h: binary::RequestHeader) -> ReqView {
    rv(RK::ItemTooLarge, h, Seq::empty(), Seq::empty(), 0, 0, 0, 0)
}

// `x` is an acceptable decoding of the complete frame (h, b).  The stat opcode (0x10) is served by
// memc-rs through its header-only path; the statement does not fix which header-only request variant
// represents it, so both `Stats` and `Version` are accepted for it (permissive on purpose).
pub open spec fn req_matches(x: BinaryRequest, h: binary::RequestHeader, b: Seq<u8>) -> bool {
    if h.opcode == 0x10 {
        same_req(req_view(x), rv(RK::Stats, h, Seq::empty(), Seq::empty(), 0, 0, 0, 0))
        || same_req(req_view(x), rv(RK::Version, h, Seq::empty(), Seq::empty(), 0, 0, 0, 0))
    } else {
        same_req(req_view(x), expected_req(h, b))
    }
}

pub enum FF {
    NeedMore,
    Invalid,
    TooLarge(binary::RequestHeader),
    Frame(binary::RequestHeader, Seq<u8>),   // header, and the stream after the header (body first)
}

// The unique left-to-right reading of the first frame of a pending byte stream `p`.
pub open spec fn first_frame(p: Seq<u8>, limit: u32) -> FF {
    if p.len() < 24 { FF::NeedMore }
    else {
        let h = hdr_of(p);
        if !header_ok(h) { FF::Invalid }
        else if h.body_length > limit { FF::TooLarge(h) }
        else if p.len() < 24 + h.body_length { FF::NeedMore }
        else if !layout_lenient(h) { FF::Invalid }
        else { FF::Frame(h, p.subrange(24, p.len() as int)) }
    }
}

// number of stream bytes a decided first frame occupies
pub open spec fn frame_consumes(f: FF) -> int {
    match f {
        FF::TooLarge(h) => 24,                       // decoder level: header only; the connection skips the body (C13)
        FF::Frame(h, b) => 24 + h.body_length,
        _ => 0,
    }
}
