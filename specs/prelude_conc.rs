// ---------------------------------------------------------------------------------------------
// Interference prelude (DESIGN §4.3, C03/C04).  ASSUMED.  Same API as the sequential stand-ins, but every
// call is ONE atomic step on the shared content as it is at that moment - cur() - and afterwards cur() is
// unconstrained: other threads may have done anything in between.  Each step is appended to a ghost log.
// ---------------------------------------------------------------------------------------------
pub struct Access { pub pre: CView, pub post: CView }

pub mod atomic {
    use vstd::prelude::*;
    #[derive(Clone, Copy)]
    pub enum Ordering { Relaxed, Release, Acquire, AcqRel, SeqCst }
    #[verifier::external_body]
    pub struct AtomicU64 { _p: core::marker::PhantomData<u8> }
    impl AtomicU64 {
        // other threads add too: only "returns some value" is known
        #[verifier::external_body]
        // ASSUMED: the counter starts at 1 and never wraps, so every value it hands out is non-zero
        pub fn fetch_add(&mut self, v: u64, o: Ordering) -> (r: u64) ensures r != 0 { unimplemented!() }
        #[verifier::external_body]
        pub fn fetch_max(&mut self, v: u64, o: Ordering) -> (r: u64) { unimplemented!() }
        #[verifier::external_body]
        pub fn fetch_min(&mut self, v: u64, o: Ordering) -> (r: u64) { unimplemented!() }
        #[verifier::external_body]
        pub fn store(&mut self, v: u64, o: Ordering) { unimplemented!() }
        #[verifier::external_body]
        pub fn swap(&mut self, v: u64, o: Ordering) -> (r: u64) { unimplemented!() }
        #[verifier::external_body]
        pub fn load(&self, o: Ordering) -> (r: u64) { unimplemented!() }
    }
}
pub use atomic::{AtomicU64, Ordering};

#[verifier::external_body]
pub struct TimerS { _p: core::marker::PhantomData<u8> }
impl TimerS {
    pub uninterp spec fn now(&self) -> u64;
    #[verifier::external_body]
    pub fn timestamp(&self) -> (r: u64) ensures r == self.now() { unimplemented!() }
}

#[verifier::external_body]
pub struct Storage { _p: core::marker::PhantomData<u8> }
impl Storage {
    pub uninterp spec fn cur(&self) -> CView;            // content at the moment of the next access
    pub uninterp spec fn log(&self) -> Seq<Access>;      // accesses made through this handle so far

    #[verifier::external_body]
    pub fn get(&mut self, key: &KeyType) -> (r: Option<&Record>)
        ensures final(self).log() == old(self).log().push(Access { pre: old(self).cur(), post: old(self).cur() }),
                r is Some <==> old(self).cur().contains_key(key@),
                r is Some ==> same_item(item_of(*r->Some_0), old(self).cur()[key@]) && stamped_ok(*r->Some_0) { unimplemented!() }
    // the exclusive guard keeps the shard locked until it is dropped: reading and writing through it is one step
    #[verifier::external_body]
    pub fn get_mut(&mut self, key: &KeyType) -> (r: Option<&mut Record>)
        ensures r is Some <==> old(self).cur().contains_key(key@),
                r is Some ==> same_item(item_of(*r->Some_0), old(self).cur()[key@]),
                r is None ==> final(self).log() == old(self).log().push(Access { pre: old(self).cur(), post: old(self).cur() }),
                r is Some ==> final(self).log() == old(self).log().push(Access { pre: old(self).cur(), post: old(self).cur().insert(key@, item_of(*final(r->Some_0))) }) { unimplemented!() }
    #[verifier::external_body]
    pub fn insert(&mut self, key: KeyType, value: Record) -> (r: Option<Record>)
        ensures final(self).log() == old(self).log().push(Access { pre: old(self).cur(), post: old(self).cur().insert(key@, item_of(value)) }) { unimplemented!() }
    #[verifier::external_body]
    pub fn remove(&mut self, key: &KeyType) -> (r: Option<(KeyType, Record)>)
        ensures final(self).log() == old(self).log().push(Access { pre: old(self).cur(), post: old(self).cur().remove(key@) }),
                r is Some <==> old(self).cur().contains_key(key@),
                r is Some ==> same_item(item_of(r->Some_0.1), old(self).cur()[key@]) { unimplemented!() }
    // remove_if(key, f): one atomic step on the current content
    #[verifier::external_body]
    pub fn remove_if<F: FnOnce(&KeyType, &Record) -> bool>(&mut self, key: &KeyType, f: F) -> (r: Option<(KeyType, Record)>)
        requires forall|k: &KeyType, v: &Record| stamped_ok(*v) ==> #[trigger] f.requires((k, v)),
        ensures
            !old(self).cur().contains_key(key@) ==> r is None && final(self).log() == old(self).log().push(Access { pre: old(self).cur(), post: old(self).cur() }),
            old(self).cur().contains_key(key@) ==> exists|k: &KeyType, v: &Record, b: bool| k@ == key@ && stamped_ok(*v) && same_item(item_of(*v), old(self).cur()[key@]) && #[trigger] f.ensures((k, v), b)
                && (b ==> r is Some && final(self).log() == old(self).log().push(Access { pre: old(self).cur(), post: old(self).cur().remove(key@) }))
                && (!b ==> r is None && final(self).log() == old(self).log().push(Access { pre: old(self).cur(), post: old(self).cur() })),
    { unimplemented!() }
}
