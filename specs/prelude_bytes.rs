// ---------------------------------------------------------------------------------------------
// Stand-in for the `bytes` crate (DESIGN §4.1).  ASSUMED contracts: every `external_body` below is
// part of the trusted base.  Panic conditions of the real API are preconditions here, so
// "no panic" becomes "every call site proves the precondition".
// ---------------------------------------------------------------------------------------------
// big-endian value of the bytes at offset i (defined by index, so no sequence surgery is needed to use them)
pub open spec fn be16_at(s: Seq<u8>, i: int) -> u16 recommends 0 <= i, s.len() >= i + 2 {
    ((s[i] as int) * 256 + (s[i + 1] as int)) as u16
}
pub open spec fn be32_at(s: Seq<u8>, i: int) -> u32 recommends 0 <= i, s.len() >= i + 4 {
    ((s[i] as int) * 16777216 + (s[i + 1] as int) * 65536 + (s[i + 2] as int) * 256 + (s[i + 3] as int)) as u32
}
pub open spec fn be64_at(s: Seq<u8>, i: int) -> u64 recommends 0 <= i, s.len() >= i + 8 {
    ((s[i] as int) * 72057594037927936 + (s[i + 1] as int) * 281474976710656 + (s[i + 2] as int) * 1099511627776
        + (s[i + 3] as int) * 4294967296 + (s[i + 4] as int) * 16777216 + (s[i + 5] as int) * 65536
        + (s[i + 6] as int) * 256 + (s[i + 7] as int)) as u64
}
// proved helper, broadcast in every unit: a subrange of a subrange is a subrange
pub mod seqlem {
    use vstd::prelude::*;
    pub broadcast proof fn lemma_subrange_subrange<A>(s: Seq<A>, a: int, b: int, c: int, d: int)
        requires 0 <= a <= b <= s.len(), 0 <= c <= d <= b - a,
        ensures #[trigger] s.subrange(a, b).subrange(c, d) =~= s.subrange(a + c, a + d),
    {
    }
}
pub open spec fn enc16(x: u16) -> Seq<u8> { seq![(x / 256) as u8, (x % 256) as u8] }
pub open spec fn enc32(x: u32) -> Seq<u8> {
    seq![(x / 16777216) as u8, ((x / 65536) % 256) as u8, ((x / 256) % 256) as u8, (x % 256) as u8]
}
pub open spec fn enc64(x: u64) -> Seq<u8> { enc32((x / 4294967296) as u32) + enc32((x % 4294967296) as u32) }

#[verifier::external_body]
pub struct Bytes { _p: core::marker::PhantomData<u8> }
impl View for Bytes { type V = Seq<u8>; uninterp spec fn view(&self) -> Seq<u8>; }

#[verifier::external_body]
pub struct BytesMut { _p: core::marker::PhantomData<u8> }
impl View for BytesMut { type V = Seq<u8>; uninterp spec fn view(&self) -> Seq<u8>; }
// cap(): the capacity *requested* through with_capacity/reserve (the growth policy of the real
// allocator - doubling, 64-byte top-ups of read_buf - is `bytes`' business and not modelled).
impl BytesMut { pub uninterp spec fn cap(&self) -> nat; }

// lengths of real buffers never exceed isize::MAX (allocation invariant of `bytes`/`Vec`)
pub open spec fn BYTES_MAX() -> nat { 0x7fff_ffff_ffff_ffff }

impl Clone for Bytes {
    #[verifier::external_body]
    fn clone(&self) -> (r: Bytes) ensures r@ == self@ { unimplemented!() }
}

// &BytesMut coerces to &[u8] too (indexing `buf[i]` goes through the slice and carries the slice's bounds precondition)
impl core::ops::Deref for BytesMut {
    type Target = [u8];
    #[verifier::external_body]
    fn deref(&self) -> (r: &[u8]) ensures r@ == self@ { unimplemented!() }
}

// &Bytes coerces to &[u8]
impl core::ops::Deref for Bytes {
    type Target = [u8];
    #[verifier::external_body]
    fn deref(&self) -> (r: &[u8]) ensures r@ == self@ { unimplemented!() }
}

impl core::convert::AsRef<[u8]> for Bytes {
    #[verifier::external_body]
    fn as_ref(&self) -> (r: &[u8]) ensures r@ == self@ { unimplemented!() }
}
impl core::convert::AsRef<[u8]> for BytesMut {
    #[verifier::external_body]
    fn as_ref(&self) -> (r: &[u8]) ensures r@ == self@ { unimplemented!() }
}
// Bytes == Bytes compares contents
impl vstd::std_specs::cmp::PartialEqSpecImpl for Bytes {
    open spec fn obeys_eq_spec() -> bool { true }
    open spec fn eq_spec(&self, other: &Bytes) -> bool { self@ == other@ }
}
impl PartialEq for Bytes {
    #[verifier::external_body]
    fn eq(&self, other: &Bytes) -> (r: bool) ensures r == (self@ == other@) { unimplemented!() }
}

impl Bytes {
    #[verifier::external_body]
    pub fn to_vec(&self) -> (r: Vec<u8>) ensures r@ == self@ { unimplemented!() }
    #[verifier::external_body]
    pub fn from_static(s: &'static [u8]) -> (r: Bytes) ensures r@ == s@ { unimplemented!() }
    #[verifier::external_body]
    pub fn truncate(&mut self, n: usize) ensures final(self)@ == (if n < old(self)@.len() { old(self)@.subrange(0, n as int) } else { old(self)@ }) { unimplemented!() }
    // Bytes::from(String): takes over the string's bytes
    #[verifier::external_body]
    pub fn from(s: String) -> (r: Bytes) ensures r@ == string_bytes(s) { unimplemented!() }
    #[verifier::external_body]
    pub fn new() -> (r: Bytes) ensures r@ == Seq::<u8>::empty() { unimplemented!() }
    // Bytes::copy_from_slice(data): a fresh buffer with the same bytes
    #[verifier::external_body]
    pub fn copy_from_slice(data: &[u8]) -> (r: Bytes) ensures r@ == data@ { unimplemented!() }
    #[verifier::external_body]
    pub fn len(&self) -> (r: usize) ensures r == self@.len(), r <= BYTES_MAX() { unimplemented!() }
    #[verifier::external_body]
    pub fn is_empty(&self) -> (r: bool) ensures r == (self@.len() == 0) { unimplemented!() }
}

impl BytesMut {
    #[verifier::external_body]
    pub fn to_vec(&self) -> (r: Vec<u8>) ensures r@ == self@ { unimplemented!() }
    #[verifier::external_body]
    pub fn truncate(&mut self, n: usize) ensures final(self)@ == (if n < old(self)@.len() { old(self)@.subrange(0, n as int) } else { old(self)@ }), final(self).cap() == old(self).cap() { unimplemented!() }
    #[verifier::external_body]
    pub fn new() -> (r: BytesMut) ensures r@ == Seq::<u8>::empty() { unimplemented!() }
    #[verifier::external_body]
    pub fn with_capacity(n: usize) -> (r: BytesMut) ensures r@ == Seq::<u8>::empty(), r.cap() == n { unimplemented!() }
    #[verifier::external_body]
    pub fn len(&self) -> (r: usize) ensures r == self@.len(), r <= BYTES_MAX() { unimplemented!() }
    #[verifier::external_body]
    pub fn is_empty(&self) -> (r: bool) ensures r == (self@.len() == 0) { unimplemented!() }
    #[verifier::external_body]
    pub fn capacity(&self) -> (r: usize) ensures r == self.cap() { unimplemented!() }
    // reserve(n): contents unchanged; afterwards at least n more bytes fit
    #[verifier::external_body]
    pub fn reserve(&mut self, n: usize)
        ensures final(self)@ == old(self)@,
            final(self).cap() == (if old(self).cap() >= old(self)@.len() + n { old(self).cap() as int } else { old(self)@.len() + n }) { unimplemented!() }
    #[verifier::external_body]
    pub fn clear(&mut self) ensures final(self)@ == Seq::<u8>::empty(), final(self).cap() == old(self).cap() { unimplemented!() }
    // split_to(at): returns [0, at), self becomes [at, len). Real one panics if at > len.
    #[verifier::external_body]
    pub fn split_to(&mut self, at: usize) -> (r: BytesMut)
        requires at <= old(self)@.len()
        ensures final(self).cap() <= old(self).cap(), r@ == old(self)@.subrange(0, at as int), final(self)@ == old(self)@.subrange(at as int, old(self)@.len() as int) { unimplemented!() }
    // split_off(at): returns [at, len), self becomes [0, at). Real one panics if at > capacity.
    #[verifier::external_body]
    pub fn split_off(&mut self, at: usize) -> (r: BytesMut)
        requires at <= old(self)@.len()
        ensures final(self).cap() <= old(self).cap(), r.cap() <= old(self).cap(), final(self)@ == old(self)@.subrange(0, at as int), r@ == old(self)@.subrange(at as int, old(self)@.len() as int) { unimplemented!() }
    #[verifier::external_body]
    pub fn advance(&mut self, n: usize)
        requires n <= old(self)@.len()
        ensures final(self).cap() <= old(self).cap(), final(self)@ == old(self)@.subrange(n as int, old(self)@.len() as int) { unimplemented!() }
    #[verifier::external_body]
    pub fn freeze(self) -> (r: Bytes) ensures r@ == self@ { unimplemented!() }
    #[verifier::external_body]
    pub fn get_u8(&mut self) -> (r: u8)
        requires old(self)@.len() >= 1
        ensures final(self).cap() <= old(self).cap(), r == old(self)@[0], final(self)@ == old(self)@.subrange(1, old(self)@.len() as int) { unimplemented!() }
    #[verifier::external_body]
    pub fn get_u16(&mut self) -> (r: u16)
        requires old(self)@.len() >= 2
        ensures final(self).cap() <= old(self).cap(), r == be16_at(old(self)@, 0), final(self)@ == old(self)@.subrange(2, old(self)@.len() as int) { unimplemented!() }
    #[verifier::external_body]
    pub fn get_u32(&mut self) -> (r: u32)
        requires old(self)@.len() >= 4
        ensures final(self).cap() <= old(self).cap(), r == be32_at(old(self)@, 0), final(self)@ == old(self)@.subrange(4, old(self)@.len() as int) { unimplemented!() }
    #[verifier::external_body]
    pub fn get_u64(&mut self) -> (r: u64)
        requires old(self)@.len() >= 8
        ensures final(self).cap() <= old(self).cap(), r == be64_at(old(self)@, 0), final(self)@ == old(self)@.subrange(8, old(self)@.len() as int) { unimplemented!() }
    #[verifier::external_body]
    pub fn put_u8(&mut self, x: u8) ensures final(self)@ == old(self)@.push(x) { unimplemented!() }
    #[verifier::external_body]
    pub fn put_u16(&mut self, x: u16) ensures final(self)@ == old(self)@ + enc16(x) { unimplemented!() }
    #[verifier::external_body]
    pub fn put_u32(&mut self, x: u32) ensures final(self)@ == old(self)@ + enc32(x) { unimplemented!() }
    #[verifier::external_body]
    pub fn put_u64(&mut self, x: u64) ensures final(self)@ == old(self)@ + enc64(x) { unimplemented!() }
    #[verifier::external_body]
    pub fn put_slice(&mut self, s: &[u8]) ensures final(self)@ == old(self)@ + s@ { unimplemented!() }
    #[verifier::external_body]
    pub fn extend_from_slice(&mut self, s: &[u8]) ensures final(self)@ == old(self)@ + s@ { unimplemented!() }
}

// things BytesMut::put accepts in the extracted code: &[u8] and Bytes
pub trait BufSrc: Sized { spec fn src_bytes(&self) -> Seq<u8>; }
impl BufSrc for &[u8] { open spec fn src_bytes(&self) -> Seq<u8> { (*self)@ } }
impl BufSrc for Bytes { open spec fn src_bytes(&self) -> Seq<u8> { self@ } }
impl BytesMut {
    #[verifier::external_body]
    pub fn put<T: BufSrc>(&mut self, src: T) ensures final(self)@ == old(self)@ + src.src_bytes() { unimplemented!() }
}
