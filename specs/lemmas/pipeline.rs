// ---------------------------------------------------------------------------------------------
// Lifting the per-call contract of read_frame (rf_post) to whole streams (C09, C12, C18).  Spec only.
// ---------------------------------------------------------------------------------------------
// number of stream bytes the decided first frame of s occupies at the connection level (an oversized request
// occupies header + body, or everything that is left if the peer stops inside the body)
pub open spec fn frame_span(s: Seq<u8>, limit: u32) -> int {
    match first_frame(s, limit) {
        FF::Frame(h, rest) => 24 + h.body_length,
        FF::TooLarge(h) => min_int(24 + h.body_length, s.len() as int),
        _ => 0,
    }
}
// the unique left-to-right reading of a stream into frames, up to the first undecided or invalid one
pub open spec fn frames(s: Seq<u8>, limit: u32) -> Seq<FF>
    decreases s.len(),
{
    match first_frame(s, limit) {
        FF::NeedMore => Seq::<FF>::empty(),
        FF::Invalid => seq![FF::Invalid],
        f => if 24 <= frame_span(s, limit) <= s.len() { seq![f] + frames(s.subrange(frame_span(s, limit), s.len() as int), limit) } else { seq![f] },
    }
}
pub proof fn lemma_frame_span_bounds(s: Seq<u8>, limit: u32) // @ob C09 lemma.frame_span_bounds
    requires first_frame(s, limit) is Frame || first_frame(s, limit) is TooLarge,
    ensures 24 <= frame_span(s, limit) <= s.len(),
{
}

// one successful read_frame call reads exactly the first element of frames(s0) and leaves exactly the rest:
// by induction the k-th request a connection executes is the k-th frame of its byte stream, whatever the
// segmentation (rf_post mentions the stream only, never how it was delivered)
pub proof fn lemma_read_frame_is_head_of_frames(s0: Seq<u8>, limit: u32, r: core::result::Result<Option<BinaryRequest>, io::Error>, s1: Seq<u8>) // @ob C09,C12,C18 lemma.read_frame_is_head_of_frames
    requires rf_post(s0, limit, r, s1), r is Ok, r->Ok_0 is Some,
    ensures
        frames(s0, limit).len() >= 1,
        frames(s0, limit)[0] == first_frame(s0, limit),
        s1 =~= s0.subrange(frame_span(s0, limit), s0.len() as int),
        frames(s0, limit) =~= seq![first_frame(s0, limit)] + frames(s1, limit),
{
    lemma_frame_span_bounds(s0, limit);
    let sp = frame_span(s0, limit);
    assert(s1 =~= s0.subrange(sp, s0.len() as int));
}

// a run of n successful read_frame calls: states st[0..n], results res[0..n)
pub open spec fn step_ok(st: Seq<Seq<u8>>, res: Seq<core::result::Result<Option<BinaryRequest>, io::Error>>, limit: u32, i: int) -> bool {
    rf_post(st[i], limit, res[i], st[i + 1]) && res[i] is Ok && res[i]->Ok_0 is Some
}
pub open spec fn run_ok(st: Seq<Seq<u8>>, res: Seq<core::result::Result<Option<BinaryRequest>, io::Error>>, limit: u32) -> bool {
    &&& st.len() == res.len() + 1
    &&& forall|i: int| 0 <= i < res.len() ==> #[trigger] step_ok(st, res, limit, i)
}
// C09/C12 (in-order, exactly once): after n successful reads the executed requests are the first n frames of the
// original stream and what is left to read is exactly the stream after those n frames
pub proof fn lemma_run_is_prefix_of_frames(st: Seq<Seq<u8>>, res: Seq<core::result::Result<Option<BinaryRequest>, io::Error>>, limit: u32) // @ob C09,C12,C18 lemma.run_is_prefix_of_frames
    requires run_ok(st, res, limit),
    ensures
        frames(st[0], limit).len() >= res.len(),
        forall|i: int| 0 <= i < res.len() ==> #[trigger] frames(st[0], limit)[i] == first_frame(st[i], limit),
        frames(st[0], limit).subrange(res.len() as int, frames(st[0], limit).len() as int) =~= frames(st[res.len() as int], limit),
    decreases res.len(),
{
    if res.len() == 0 {
    } else {
        assert(step_ok(st, res, limit, 0));
        lemma_read_frame_is_head_of_frames(st[0], limit, res[0], st[1]);
        let st2 = st.subrange(1, st.len() as int);
        let res2 = res.subrange(1, res.len() as int);
        assert forall|i: int| 0 <= i < res2.len() implies #[trigger] step_ok(st2, res2, limit, i) by {
            assert(step_ok(st, res, limit, i + 1));
            assert(st2[i] == st[i + 1] && st2[i + 1] == st[i + 2] && res2[i] == res[i + 1]);
        }
        assert(run_ok(st2, res2, limit));
        lemma_run_is_prefix_of_frames(st2, res2, limit);
        let f0 = frames(st[0], limit);
        let f1 = frames(st[1], limit);
        assert(st2[0] == st[1]);
        assert(f0 =~= seq![first_frame(st[0], limit)] + f1);
        assert forall|i: int| 0 <= i < res.len() implies #[trigger] f0[i] == first_frame(st[i], limit) by {
            if i > 0 {
                assert(f0[i] == f1[i - 1]);
                assert(frames(st2[0], limit)[i - 1] == first_frame(st2[i - 1], limit));
                assert(st2[i - 1] == st[i]);
            }
        }
        assert(st2[res2.len() as int] == st[res.len() as int]);
        assert(f0.subrange(res.len() as int, f0.len() as int) =~= f1.subrange(res2.len() as int, f1.len() as int));
    }
}

// C09: two connections fed the same stream (however it is cut into reads) return the same first request and are
// left with the same stream.  (For the stat opcode the request variant is one of two header-only variants, see
// req_matches; frames that may be refused or executed - layout_lenient but not layout_ok - are excluded.)
pub proof fn lemma_same_stream_same_request(s0: Seq<u8>, limit: u32,
        ra: core::result::Result<Option<BinaryRequest>, io::Error>, sa: Seq<u8>,
        rb: core::result::Result<Option<BinaryRequest>, io::Error>, sb: Seq<u8>) // @ob C09 lemma.same_stream_same_request
    requires rf_post(s0, limit, ra, sa), rf_post(s0, limit, rb, sb), ra is Ok, ra->Ok_0 is Some, rb is Ok, rb->Ok_0 is Some,
    ensures
        sa =~= sb,
        (first_frame(s0, limit) is TooLarge || (first_frame(s0, limit) is Frame && first_frame(s0, limit)->Frame_0.opcode != 0x10))
            ==> same_req(req_view(ra->Ok_0->Some_0), req_view(rb->Ok_0->Some_0)),
{
}
