// ---------------------------------------------------------------------------------------------
// Spec-only lemmas lifting decode's contract to "independent of segmentation" (C09).  They mention
// only the spec vocabulary (first_frame, expected_req, pend), never the code; re-proved every run.
// ---------------------------------------------------------------------------------------------

// expected_req looks only at the first body_length bytes after the header
pub proof fn lemma_expected_req_prefix(h: binary::RequestHeader, b: Seq<u8>, x: Seq<u8>) // @ob C09 lemma.expected_req_prefix
    requires b.len() >= h.body_length, layout_lenient(h),
    ensures same_req(expected_req(h, b + x), expected_req(h, b)),
{
    let k = h.key_length as int; let n = h.body_length as int;
    assert(forall|i: int| 0 <= i < b.len() ==> (b + x)[i] == b[i]);
    assert((b + x).subrange(0, k) =~= b.subrange(0, k));
    assert((b + x).subrange(k, n) =~= b.subrange(k, n));
    if op_set_class(h.opcode) {
        assert((b + x).subrange(8, 8 + k) =~= b.subrange(8, 8 + k));
        assert((b + x).subrange(8 + k, n) =~= b.subrange(8 + k, n));
    }
    if op_incdec_class(h.opcode) {
        assert((b + x).subrange(20, 20 + k) =~= b.subrange(20, 20 + k));
    }
}

// Stability: once the first frame of a pending stream is decided, more bytes never change the decision,
// the number of bytes it occupies, or the request it denotes.  (No bytes of the following request are used.)
pub proof fn lemma_first_frame_stable(p: Seq<u8>, x: Seq<u8>, limit: u32) // @ob C09 lemma.first_frame_stable
    requires !(first_frame(p, limit) is NeedMore),
    ensures
        match first_frame(p, limit) {
            FF::Invalid => first_frame(p + x, limit) is Invalid,
            FF::TooLarge(h) => first_frame(p + x, limit) == FF::TooLarge(h),
            FF::Frame(h, b) => first_frame(p + x, limit) is Frame
                && first_frame(p + x, limit)->Frame_0 == h
                && first_frame(p + x, limit)->Frame_1 =~= b + x
                && same_req(expected_req(h, b + x), expected_req(h, b)),
            FF::NeedMore => true,
        },
{
    assert(p.len() >= 24);
    assert(forall|i: int| 0 <= i < p.len() ==> (p + x)[i] == p[i]);
    assert(hdr_of(p + x) == hdr_of(p));
    let h = hdr_of(p);
    if header_ok(h) && h.body_length <= limit && layout_lenient(h) {
        assert((p + x).subrange(24, (p + x).len() as int) =~= p.subrange(24, p.len() as int) + x);
        lemma_expected_req_prefix(h, p.subrange(24, p.len() as int), x);
    }
}

// Monotonicity of NeedMore: if a stream extended by x is still undecided, so was the shorter one
// (a decision is never revoked, and never made on a strict prefix only to change later).
pub proof fn lemma_need_more_prefix(p: Seq<u8>, x: Seq<u8>, limit: u32) // @ob C09 lemma.need_more_prefix
    requires first_frame(p + x, limit) is NeedMore,
    ensures first_frame(p, limit) is NeedMore,
{
    if !(first_frame(p, limit) is NeedMore) {
        lemma_first_frame_stable(p, x, limit);
    }
}

// Resumability: the pending-stream relation is preserved when the socket delivers more bytes, in either
// decoder state - so the decision taken after any number of partial deliveries is first_frame of the
// concatenation of everything delivered, i.e. independent of how it was cut.
pub proof fn lemma_pend_append(c: MemcacheBinaryCodec, buf: Seq<u8>, p: Seq<u8>, x: Seq<u8>) // @ob C09 lemma.pend_append
    requires pend(c, buf, p),
    ensures pend(c, buf + x, p + x),
{
    if !st_none(c) {
        assert(forall|i: int| 0 <= i < p.len() ==> (p + x)[i] == p[i]);
        assert(hdr_of(p + x) == hdr_of(p));
        assert((p + x).subrange(24, (p + x).len() as int) =~= p.subrange(24, p.len() as int) + x);
    }
}

// One decode step on a chunked delivery equals one decode step on the whole: induction step of the
// segmentation theorem.  If after delivering `p` decode answered "need more" (state c1, buffer b1 with
// pend(c1,b1,p)), then after delivering x the next decode is constrained by decode_post(p + x, ..),
// exactly as a decoder that had received p + x in one read.
pub proof fn lemma_chunked_step(c1: MemcacheBinaryCodec, b1: Seq<u8>, p: Seq<u8>, x: Seq<u8>) // @ob C09 lemma.chunked_step
    requires pend(c1, b1, p),
    ensures pend(c1, b1 + x, p + x),
{
    lemma_pend_append(c1, b1, p, x);
}

// After a frame has been taken, the remaining pending stream is the suffix: the next decode is
// constrained by first_frame of exactly the bytes that follow the frame.
pub proof fn lemma_after_frame(c: MemcacheBinaryCodec, buf: Seq<u8>, p: Seq<u8>, limit: u32, r: core::result::Result<Option<BinaryRequest>, io::Error>) // @ob C09 lemma.after_frame
    requires decode_post(p, limit, r, c, buf), first_frame(p, limit) is Frame, r is Ok,
    ensures pend(c, buf, p.subrange(24 + first_frame(p, limit)->Frame_0.body_length, p.len() as int)),
{
}
