// ---------------------------------------------------------------------------------------------
// The whole-connection reading of C12 / C18 (spec + lemmas).  It lifts the per-read contract of read_frame (rf_post)
// and the per-request contract of Client::handle_frame (request_post) to a whole run of Client::handle:
//   the requests a connection executes are, in order, the first n frames of the byte stream it was sent (whatever
//   the segmentation), each is executed exactly once on the store the previous one left, and the bytes written are
//   the concatenation, in that order, of exactly one whole response per answered request and nothing for a silent
//   one - except that the last response may have been cut by a failing write, after which nothing else happens.
// ---------------------------------------------------------------------------------------------
pub struct Step { pub x: BinaryRequest, pub s0: storage::MemcStore, pub s1: storage::MemcStore, pub out: Seq<u8> }

pub open spec fn resp_bytes(r: Option<BinaryResponse>) -> Seq<u8> { match r { Some(x) => wire_bytes(x), None => Seq::<u8>::empty() } }

// the request was executed once and its response (if it has one) was written whole; `closing`: it ended the
// connection (quitq, or a request answered with the Quit response) - only the last step of a run can be closing
pub open spec fn step_done(st: Step, closing: bool) -> bool {
    let q = req_view(st.x);
    if q.kind is QuitQuietly { closing && st.s1 == st.s0 && st.out =~= Seq::<u8>::empty() }
    else { exists|resp: Option<BinaryResponse>| #[trigger] is_opt_resp(resp) && handle_post(q, st.s0, st.s1, resp) && st.out =~= resp_bytes(resp)
               && closing == (resp is Some && resp->Some_0 is Quit) }
}
// the request was executed once and the write of its response failed part-way (only the last step of a run can be cut)
pub open spec fn step_cut(st: Step) -> bool {
    let q = req_view(st.x);
    !(q.kind is QuitQuietly) && exists|resp: Option<BinaryResponse>| #[trigger] is_opt_resp(resp) && handle_post(q, st.s0, st.s1, resp) && resp is Some
        && st.out.len() <= wire_bytes(resp->Some_0).len()
}
pub open spec fn flat(outs: Seq<Seq<u8>>) -> Seq<u8> decreases outs.len() {
    if outs.len() == 0 { Seq::<u8>::empty() } else { flat(outs.drop_last()) + outs.last() }
}
pub open spec fn outs_of(steps: Seq<Step>) -> Seq<Seq<u8>> { Seq::new(steps.len(), |i: int| steps[i].out) }
// each step starts on the store the previous one left
pub open spec fn chain(steps: Seq<Step>, a: storage::MemcStore, b: storage::MemcStore) -> bool {
    if steps.len() == 0 { a == b } else {
        &&& steps[0].s0 == a && steps.last().s1 == b
        &&& forall|i: int| 0 <= i < steps.len() - 1 ==> (#[trigger] steps[i]).s1 == steps[i + 1].s0
    }
}
// `x` is an acceptable decoding of frame `ff` (an oversized frame is handed over header-only)
pub open spec fn req_of_ff(ff: FF, x: BinaryRequest) -> bool {
    match ff {
        FF::Frame(h, rest) => req_matches(x, h, rest),
        FF::TooLarge(h) => same_req(req_view(x), too_large_req(h)),
        _ => false,
    }
}

// loop invariant of Client::handle: `steps` were executed so far, all complete
pub open spec fn session_inv(steps: Seq<Step>, sts: Seq<Seq<u8>>, ress: Seq<core::result::Result<Option<BinaryRequest>, io::Error>>, c0: Client, c: Client, lim: u32) -> bool {
    &&& sts.len() == steps.len() + 1 && ress.len() == steps.len()
    &&& run_ok(sts, ress, lim)
    &&& sts[0] == stream_of(c0.stream) && sts[steps.len() as int] == stream_of(c.stream)
    &&& forall|i: int| 0 <= i < steps.len() ==> #[trigger] ress[i] == ok_some(steps[i].x)
    &&& chain(steps, c0.handler.storage, c.handler.storage)
    &&& forall|i: int| 0 <= i < steps.len() ==> step_done(#[trigger] steps[i], false)
    &&& cl_sent(c) =~= cl_sent(c0) + flat(outs_of(steps))
}
// what a finished run of Client::handle amounts to
pub open spec fn session_end(steps: Seq<Step>, c0: Client, c1: Client, lim: u32) -> bool {
    &&& frames(stream_of(c0.stream), lim).len() >= steps.len()
    &&& forall|i: int| 0 <= i < steps.len() ==> req_of_ff(frames(stream_of(c0.stream), lim)[i], (#[trigger] steps[i]).x)
    &&& chain(steps, c0.handler.storage, c1.handler.storage)
    &&& forall|i: int| 0 <= i < steps.len() - 1 ==> step_done(#[trigger] steps[i], false)
    &&& steps.len() > 0 ==> step_done(steps.last(), false) || step_done(steps.last(), true) || step_cut(steps.last())
    &&& cl_sent(c1) =~= cl_sent(c0) + flat(outs_of(steps))
}
pub open spec fn session_ok(c0: Client, c1: Client, lim: u32) -> bool { exists|steps: Seq<Step>| #[trigger] session_end(steps, c0, c1, lim) }

pub proof fn lemma_flat_push(outs: Seq<Seq<u8>>, o: Seq<u8>) // @ob C12 lemma.flat_push
    ensures flat(outs.push(o)) =~= flat(outs) + o,
{
    assert(outs.push(o).drop_last() =~= outs);
    assert(outs.push(o).last() == o);
}
pub proof fn lemma_outs_push(steps: Seq<Step>, st: Step) // @ob C12 lemma.outs_push
    ensures outs_of(steps.push(st)) =~= outs_of(steps).push(st.out),
{
}

pub proof fn lemma_session_start(c: Client, lim: u32) // @ob C12 lemma.session_start
    ensures session_inv(Seq::<Step>::empty(), seq![stream_of(c.stream)], Seq::<core::result::Result<Option<BinaryRequest>, io::Error>>::empty(), c, c, lim),
{
    assert(flat(outs_of(Seq::<Step>::empty())) =~= Seq::<u8>::empty());
}

// the requests of a run are the frames of the stream, in order (from lemma_run_is_prefix_of_frames)
pub proof fn lemma_session_reads_frames(steps: Seq<Step>, sts: Seq<Seq<u8>>, ress: Seq<core::result::Result<Option<BinaryRequest>, io::Error>>, s0: Seq<u8>, lim: u32) // @ob C09,C12,C18 lemma.session_reads_frames
    requires
        sts.len() == steps.len() + 1 && ress.len() == steps.len(), run_ok(sts, ress, lim), sts[0] == s0,
        forall|i: int| 0 <= i < steps.len() ==> #[trigger] ress[i] == ok_some(steps[i].x),
    ensures
        frames(s0, lim).len() >= steps.len(),
        forall|i: int| 0 <= i < steps.len() ==> req_of_ff(frames(s0, lim)[i], (#[trigger] steps[i]).x),
{
    lemma_run_is_prefix_of_frames(sts, ress, lim);
    assert forall|i: int| 0 <= i < steps.len() implies req_of_ff(frames(s0, lim)[i], (#[trigger] steps[i]).x) by {
        assert(step_ok(sts, ress, lim, i));
        assert(ress[i] == ok_some(steps[i].x));
        assert(frames(sts[0], lim)[i] == first_frame(sts[i], lim));
    }
}

// a run that ends without executing anything further (end of stream, read error, invalid frame, idle timeout)
pub proof fn lemma_session_stop(steps: Seq<Step>, sts: Seq<Seq<u8>>, ress: Seq<core::result::Result<Option<BinaryRequest>, io::Error>>, c0: Client, c: Client, c1: Client, lim: u32) // @ob C12,C18 lemma.session_stop
    requires session_inv(steps, sts, ress, c0, c, lim), c1.handler.storage == c.handler.storage, cl_sent(c1) == cl_sent(c),
    ensures session_ok(c0, c1, lim),
{
    lemma_session_reads_frames(steps, sts, ress, stream_of(c0.stream), lim);
    assert(session_end(steps, c0, c1, lim));
}

// ---- pieces of the induction step (kept apart so that each query stays small) ----
pub open spec fn step_of(x: BinaryRequest, cb: Client, cc: Client) -> Step {
    Step { x: x, s0: cb.handler.storage, s1: cc.handler.storage, out: cl_sent(cc).subrange(cl_sent(cb).len() as int, cl_sent(cc).len() as int) }
}
pub proof fn lemma_step_outcome(x: BinaryRequest, cb: Client, cc: Client, close: bool) // @ob C12,C18 lemma.step_outcome
    requires request_post(req_view(x), cb, cc, close),
    ensures
        cl_sent(cc) =~= cl_sent(cb) + step_of(x, cb, cc).out,
        !close ==> step_done(step_of(x, cb, cc), false),
        close ==> step_done(step_of(x, cb, cc), true) || step_cut(step_of(x, cb, cc)),
{
    hide(handle_post); hide(wire_bytes); hide(req_view); hide(cl_inv);
    let q = req_view(x);
    let st = step_of(x, cb, cc);
    let out = st.out;
    if q.kind is QuitQuietly {
        assert(out =~= Seq::<u8>::empty());
        assert(close);
        assert(step_done(st, true));
    } else {
        let resp = choose|resp: Option<BinaryResponse>| #[trigger] is_opt_resp(resp) && handle_post(q, cb.handler.storage, cc.handler.storage, resp) && match resp {
            Some(y) => {
                ||| (cl_sent(cc) =~= cl_sent(cb) + wire_bytes(y) && close == (y is Quit) && (close ==> cc.stream.stream.shut()) && (!close ==> cc.stream.stream.shut() == cb.stream.stream.shut()))
                ||| (close && partial_write(cl_sent(cb), cl_sent(cc), wire_bytes(y)))
            },
            None => cl_sent(cc) == cl_sent(cb) && !close && cc.stream.stream.shut() == cb.stream.stream.shut(),
        };
        assert(is_opt_resp(resp));
        match resp {
            Some(y) => {
                if cl_sent(cc) =~= cl_sent(cb) + wire_bytes(y) && close == (y is Quit) {
                    assert(out =~= wire_bytes(y));
                    assert(st.out =~= resp_bytes(resp));
                    assert(step_done(st, close));
                } else {
                    assert(cl_sent(cc).subrange(0, cl_sent(cb).len() as int) =~= cl_sent(cb));
                    assert(out.len() <= wire_bytes(y).len());
                    assert(step_cut(st));
                }
            },
            None => {
                assert(out =~= Seq::<u8>::empty());
                assert(st.out =~= resp_bytes(resp));
                assert(step_done(st, false));
            },
        }
    }
}
pub proof fn lemma_push_run(steps: Seq<Step>, sts: Seq<Seq<u8>>, ress: Seq<core::result::Result<Option<BinaryRequest>, io::Error>>, st: Step, sb: Seq<u8>,
                            r: core::result::Result<Option<BinaryRequest>, io::Error>, lim: u32) // @ob C12 lemma.push_run
    requires
        sts.len() == steps.len() + 1 && ress.len() == steps.len(), run_ok(sts, ress, lim),
        forall|i: int| 0 <= i < steps.len() ==> #[trigger] ress[i] == ok_some(steps[i].x),
        rf_post(sts[steps.len() as int], lim, r, sb), r == ok_some(st.x),
    ensures
        run_ok(sts.push(sb), ress.push(r), lim),
        forall|i: int| 0 <= i < steps.len() + 1 ==> #[trigger] ress.push(r)[i] == ok_some(steps.push(st)[i].x),
{
    let n = steps.len() as int;
    let sts2 = sts.push(sb);
    let ress2 = ress.push(r);
    let steps2 = steps.push(st);
    assert forall|i: int| 0 <= i < ress2.len() implies #[trigger] step_ok(sts2, ress2, lim, i) by {
        if i < n { assert(step_ok(sts, ress, lim, i)); assert(sts2[i] == sts[i] && sts2[i + 1] == sts[i + 1] && ress2[i] == ress[i]); }
        else { assert(sts2[i] == sts[n] && sts2[i + 1] == sb && ress2[i] == r); }
    }
    assert forall|i: int| 0 <= i < n + 1 implies #[trigger] ress2[i] == ok_some(steps2[i].x) by {
        if i < n { assert(ress2[i] == ress[i] && steps2[i] == steps[i]); }
    }
}
pub proof fn lemma_push_chain(steps: Seq<Step>, st: Step, a: storage::MemcStore, b0: storage::MemcStore, b1: storage::MemcStore) // @ob C12 lemma.push_chain
    requires chain(steps, a, b0), st.s0 == b0, st.s1 == b1,
    ensures chain(steps.push(st), a, b1),
{
    let n = steps.len() as int;
    let steps2 = steps.push(st);
    if n > 0 {
        assert(steps2[0] == steps[0]);
        assert forall|i: int| 0 <= i < steps2.len() - 1 implies (#[trigger] steps2[i]).s1 == steps2[i + 1].s0 by {
            if i < n - 1 { assert(steps2[i] == steps[i] && steps2[i + 1] == steps[i + 1]); }
            else { assert(steps2[i] == steps[n - 1] && steps2[i + 1] == st); assert(steps[n - 1] == steps.last()); }
        }
    }
}

// one more iteration: read_frame returned request x (state cA -> cB), handle_frame handled it (cB -> cC)
pub proof fn lemma_session_step(steps: Seq<Step>, sts: Seq<Seq<u8>>, ress: Seq<core::result::Result<Option<BinaryRequest>, io::Error>>, c0: Client, ca: Client, cb: Client, cc: Client,
                                r: core::result::Result<Option<BinaryRequest>, io::Error>, close: bool, lim: u32) -> (st: Step) // @ob C12,C18 lemma.session_step
    requires
        session_inv(steps, sts, ress, c0, ca, lim),
        rf_post(stream_of(ca.stream), lim, r, stream_of(cb.stream)), r is Ok, r->Ok_0 is Some,
        cb.handler.storage == ca.handler.storage, cl_sent(cb) == cl_sent(ca),
        request_post(req_view(r->Ok_0->Some_0), cb, cc, close), stream_of(cc.stream) == stream_of(cb.stream),
    ensures
        !close ==> session_inv(steps.push(st), sts.push(stream_of(cb.stream)), ress.push(r), c0, cc, lim),
        close ==> session_ok(c0, cc, lim),
{
    hide(handle_post); hide(request_post); hide(rf_post); hide(step_done); hide(step_cut); hide(frames); hide(first_frame); hide(run_ok); hide(chain); hide(flat);
    hide(req_of_ff); hide(stream_of); hide(req_view); hide(cl_inv); hide(wire_bytes);
    let x = r->Ok_0->Some_0;
    let n = steps.len() as int;
    let st = step_of(x, cb, cc);
    let sts2 = sts.push(stream_of(cb.stream));
    let ress2 = ress.push(r);
    let steps2 = steps.push(st);
    assert(r == ok_some(x));
    lemma_push_run(steps, sts, ress, st, stream_of(cb.stream), r, lim);
    lemma_push_chain(steps, st, c0.handler.storage, cb.handler.storage, cc.handler.storage);
    lemma_step_outcome(x, cb, cc, close);
    lemma_outs_push(steps, st);
    lemma_flat_push(outs_of(steps), st.out);
    assert(cl_sent(cc) =~= cl_sent(c0) + flat(outs_of(steps2)));
    assert(steps2.last() == st);
    assert(sts2[0] == sts[0]);
    assert forall|i: int| 0 <= i < steps2.len() - 1 implies step_done(#[trigger] steps2[i], false) by { assert(steps2[i] == steps[i]); }
    if !close {
        assert forall|i: int| 0 <= i < steps2.len() implies step_done(#[trigger] steps2[i], false) by { if i < n { assert(steps2[i] == steps[i]); } }
        assert(sts2[steps2.len() as int] == stream_of(cc.stream));
        assert(session_inv(steps2, sts2, ress2, c0, cc, lim));
    } else {
        lemma_session_reads_frames(steps2, sts2, ress2, stream_of(c0.stream), lim);
        assert(session_end(steps2, c0, cc, lim));
    }
    st
}
