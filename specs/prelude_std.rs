// ---------------------------------------------------------------------------------------------
// Stand-ins for the pieces of `std` the extracted bodies name (DESIGN §4.2).  ASSUMED.
// ---------------------------------------------------------------------------------------------
// ASSUMED: a 64-bit target (usize is 8 bytes), as the deployed binary is.
global size_of usize == 8;

pub mod io {
    use vstd::prelude::*;
    #[derive(Clone, Copy, PartialEq, Eq)]
    pub enum ErrorKind { NotFound, PermissionDenied, ConnectionRefused, ConnectionReset, ConnectionAborted, NotConnected, AddrInUse, AddrNotAvailable, BrokenPipe, AlreadyExists, WouldBlock, InvalidInput, InvalidData, TimedOut, WriteZero, Interrupted, Unsupported, UnexpectedEof, OutOfMemory, Other }
    #[verifier::external_body]
    pub struct Error { _p: core::marker::PhantomData<u8> }
    impl Error {
        pub uninterp spec fn kind_spec(&self) -> ErrorKind;
        // R2: the message text of an io::Error is never observable by a client; only Err-vs-Ok is.
        #[verifier::external_body]
        pub fn new<M>(kind: ErrorKind, _msg: M) -> (r: Error) ensures r.kind_spec() == kind { unimplemented!() }
        #[verifier::external_body]
        pub fn kind(&self) -> (r: ErrorKind) ensures r == self.kind_spec() { unimplemented!() }
    }
    pub type Result<T> = core::result::Result<T, Error>;
}
pub use io::{Error, ErrorKind};

// UTF-8 bytes of a String (uninterpreted; related to other things only through the stand-ins that mention it)
pub uninterp spec fn string_bytes(s: String) -> Seq<u8>;

// ASSUMED contracts on std
pub assume_specification[ u8::is_ascii_digit ](c: &u8) -> (r: bool)
    ensures r == (0x30 <= *c <= 0x39);
// R2: `format!(..)` is replaced by a call to this stand-in: some String about which nothing is known
#[verifier::external_body]
pub fn fmt_standin() -> (r: String) { unimplemented!() }
// R12b: `String::from(x)` (x: &str) is redirected here: the same text
#[verifier::external_body]
pub fn string_from_str(s: &str) -> (r: String) ensures r@ == s@, string_bytes(r) == s.spec_bytes() { unimplemented!() }
