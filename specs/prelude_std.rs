// ---------------------------------------------------------------------------------------------
// Stand-ins for the pieces of `std` the extracted bodies name (DESIGN §4.2).  ASSUMED.
// ---------------------------------------------------------------------------------------------
// ASSUMED: a 64-bit target (usize is 8 bytes), as the deployed binary is.
global size_of usize == 8;

pub mod io {
    use vstd::prelude::*;
    #[derive(Clone, Copy, PartialEq, Eq)]
    pub enum ErrorKind { NotFound, PermissionDenied, ConnectionRefused, ConnectionReset, ConnectionAborted, NotConnected, AddrInUse, AddrNotAvailable, BrokenPipe, AlreadyExists, WouldBlock, InvalidInput, InvalidData, TimedOut, WriteZero, Interrupted, Unsupported, UnexpectedEof, OutOfMemory, Other }
    #[verifier::external_body]
    pub struct Error { _p: core::marker::PhantomData<u8> }
    impl Error {
        pub uninterp spec fn kind_spec(&self) -> ErrorKind;
        // R2: the message text of an io::Error is never observable by a client; only Err-vs-Ok is.
        #[verifier::external_body]
        pub fn new(kind: ErrorKind, _msg: &str) -> (r: Error) ensures r.kind_spec() == kind { unimplemented!() }
        #[verifier::external_body]
        pub fn kind(&self) -> (r: ErrorKind) ensures r == self.kind_spec() { unimplemented!() }
    }
    pub type Result<T> = core::result::Result<T, Error>;
}
pub use io::{Error, ErrorKind};

// ASSUMED: std::cmp::min on usize (the only instantiation the extracted code uses)
pub mod cmp {
    use vstd::prelude::*;
    #[verifier::external_body]
    pub fn min(a: usize, b: usize) -> (r: usize) ensures r == (if a <= b { a } else { b }) { unimplemented!() }
}
