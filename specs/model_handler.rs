// ---------------------------------------------------------------------------------------------
// Handler-level specification (C01 C02 C05-C08 handler parts, C11, C12, C13, C19).  Spec only.
// A request is described by its ReqView (wire.rs); the effect of a command depends on its BASE command
// and payload only (C19); quietness only filters the response (C12).
// ---------------------------------------------------------------------------------------------
pub open spec fn resp_header(r: BinaryResponse) -> binary::ResponseHeader {
    match r {
        BinaryResponse::Error(x) => x.header,
        BinaryResponse::Get(x) => x.header,
        BinaryResponse::GetQuietly(x) => x.header,
        BinaryResponse::GetKey(x) => x.header,
        BinaryResponse::GetKeyQuietly(x) => x.header,
        BinaryResponse::Set(x) => x.header,
        BinaryResponse::Add(x) => x.header,
        BinaryResponse::Replace(x) => x.header,
        BinaryResponse::Append(x) => x.header,
        BinaryResponse::Prepend(x) => x.header,
        BinaryResponse::Version(x) => x.header,
        BinaryResponse::Noop(x) => x.header,
        BinaryResponse::Delete(x) => x.header,
        BinaryResponse::Flush(x) => x.header,
        BinaryResponse::Increment(x) => x.header,
        BinaryResponse::Decrement(x) => x.header,
        BinaryResponse::Quit(x) => x.header,
        BinaryResponse::Stats(x) => x.header,
    }
}

// the header every response to request header `h` starts from (C11: magic 0x81, opcode and opaque echoed, data type 0)
pub open spec fn rh_init(h: binary::RequestHeader) -> binary::ResponseHeader {
    binary::ResponseHeader { magic: 0x81, opcode: h.opcode, key_length: 0, extras_length: 0, data_type: 0, status: 0, body_length: 0, opaque: h.opaque, cas: 0 }
}

// an error response for error e built on header rh0: status from the protocol table, body = the message text
pub open spec fn err_resp(r: BinaryResponse, rh0: binary::ResponseHeader, e: CacheError) -> bool {
    &&& r is Error
    &&& r->Error_0.header == (binary::ResponseHeader { status: error_code(e), body_length: error_text(e).len() as u32, ..rh0 })
    &&& r->Error_0.error == error_str(e)
}
// a body-less success response (Set/Append/Delete/Flush/Noop/Quit/Stats ...) on header rh0 carrying CAS c
pub open spec fn plain_hdr(rh0: binary::ResponseHeader, c: u64) -> binary::ResponseHeader {
    binary::ResponseHeader { cas: c, ..rh0 }
}

pub enum Base { Get, GetKey, Set, Add, Replace, Append, Prepend, Delete, Incr, Decr, Flush, Noop, Version, Quit, Stats, TooLarge, NotSupported }
pub enum QClass { Loud, QuietMutation, QuietGet }

pub open spec fn base_of(k: RK) -> Base {
    match k {
        RK::Get | RK::GetQuietly => Base::Get,
        RK::GetKey | RK::GetKeyQuietly => Base::GetKey,
        RK::Set | RK::SetQuietly => Base::Set,
        RK::Add | RK::AddQuietly => Base::Add,
        RK::Replace | RK::ReplaceQuietly => Base::Replace,
        RK::Append | RK::AppendQuietly => Base::Append,
        RK::Prepend | RK::PrependQuietly => Base::Prepend,
        RK::Delete | RK::DeleteQuiet => Base::Delete,
        RK::Increment | RK::IncrementQuiet => Base::Incr,
        RK::Decrement | RK::DecrementQuiet => Base::Decr,
        RK::Flush | RK::FlushQuietly => Base::Flush,
        RK::Noop => Base::Noop,
        RK::Version => Base::Version,
        RK::Quit | RK::QuitQuietly => Base::Quit,
        RK::Stats => Base::Stats,
        RK::ItemTooLarge => Base::TooLarge,
        RK::NotSupported => Base::NotSupported,
    }
}
pub open spec fn qclass_of(k: RK) -> QClass {
    match k {
        RK::GetQuietly | RK::GetKeyQuietly => QClass::QuietGet,
        RK::SetQuietly | RK::AddQuietly | RK::ReplaceQuietly | RK::AppendQuietly | RK::PrependQuietly | RK::DeleteQuiet
        | RK::IncrementQuiet | RK::DecrementQuiet | RK::FlushQuietly | RK::QuitQuietly => QClass::QuietMutation,
        _ => QClass::Loud,
    }
}
// C12: every loud request gets exactly one response; quiet mutations respond only on error, quiet gets only on a hit
pub open spec fn quiet_filter(k: RK, full: BinaryResponse) -> Option<BinaryResponse> {
    match qclass_of(k) {
        QClass::Loud => Some(full),
        QClass::QuietMutation => if full is Error { Some(full) } else { None },
        QClass::QuietGet => if full is Error { None } else { Some(full) },
    }
}

// ASSUMED about the store a request meets (not established by any contract here): the CAS counter has room,
// and every stored value is short enough for its hit response to have a u32 body length (DESIGN C11 A).
pub open spec fn vals_small(v: CView) -> bool { forall|k: Seq<u8>| #[trigger] v.contains_key(k) ==> v[k].value.len() <= 0xffff_fe00 }
pub open spec fn h_pre(s: store::MemcStore) -> bool { store::mc_inv(s) && store::mc_room(s) && vals_small(s.store.memory@) }

// what the decoder guarantees about a request it hands over (proved in unit codec_dec as part of decode's
// contract): the variant is the one its opcode selects, and the key is at most 250 bytes (C10)
pub open spec fn req_wf(q: ReqView) -> bool {
    &&& q.key.len() <= 250
    &&& (q.kind is ItemTooLarge || q.kind == kind_of_opcode(q.header.opcode) || (q.kind is Version && q.header.opcode == 0x10))
}

pub open spec fn set_outcome(full: BinaryResponse, okv: bool) -> bool { if okv { !(full is Error) } else { full is Error } }

// The un-filtered response `full` and the store transition (s0 -> s1) of base command b with payload q,
// response header initialised to rh0.
pub open spec fn loud_post(b: Base, q: ReqView, rh0: binary::ResponseHeader, s0: store::MemcStore, s1: store::MemcStore, full: BinaryResponse) -> bool {
    let v0 = s0.store.memory@; let v1 = s1.store.memory@;
    let c0 = store::mc_cas(s0); let c1 = store::mc_cas(s1);
    let now = store::mc_now(s0);
    let k = q.key;
    let acked = resp_header(full).cas;
    match b {
        Base::Set => {
            &&& post_set(v0, c0, now, k, q.value, q.flags, q.expiration, q.header.cas, !(full is Error), full is Error && err_resp(full, rh0, CacheError::KeyExists), full is Error && err_resp(full, rh0, CacheError::NotFound), acked, v1, c1)
            &&& (full is Error ==> err_resp(full, rh0, CacheError::KeyExists) || err_resp(full, rh0, CacheError::NotFound))
            &&& (!(full is Error) ==> full is Set && resp_header(full) == plain_hdr(rh0, acked))
        },
        Base::Add => {
            &&& match lookup(v0, now, k) {
                    Some(i) => err_resp(full, rh0, CacheError::KeyExists) && v1 == v0 && c1 == c0,
                    None => post_set(v0.remove(k), c0, now, k, q.value, q.flags, q.expiration, q.header.cas, !(full is Error), full is Error && err_resp(full, rh0, CacheError::KeyExists), full is Error && err_resp(full, rh0, CacheError::NotFound), acked, v1, c1)
                            && (full is Error ==> err_resp(full, rh0, CacheError::KeyExists) || err_resp(full, rh0, CacheError::NotFound)),
                }
            &&& (!(full is Error) ==> full is Set && resp_header(full) == plain_hdr(rh0, acked))
        },
        Base::Replace => {
            &&& match lookup(v0, now, k) {
                    Some(i) => post_set(v0, c0, now, k, q.value, q.flags, q.expiration, q.header.cas, !(full is Error), full is Error && err_resp(full, rh0, CacheError::KeyExists), full is Error && err_resp(full, rh0, CacheError::NotFound), acked, v1, c1)
                            && (full is Error ==> err_resp(full, rh0, CacheError::KeyExists) || err_resp(full, rh0, CacheError::NotFound)),
                    None => err_resp(full, rh0, CacheError::NotFound) && v1 =~= v0.remove(k) && c1 == c0,
                }
            &&& (!(full is Error) ==> full is Set && resp_header(full) == plain_hdr(rh0, acked))
        },
        Base::Append | Base::Prepend => {
            &&& match lookup(v0, now, k) {
                    Some(i) => post_set(v0, c0, now, k, if b is Prepend { q.value + i.value } else { i.value + q.value }, i.flags, i.ttl, q.header.cas,
                                        !(full is Error), full is Error && err_resp(full, rh0, CacheError::KeyExists), full is Error && err_resp(full, rh0, CacheError::NotFound), acked, v1, c1)
                            && (full is Error ==> err_resp(full, rh0, CacheError::KeyExists) || err_resp(full, rh0, CacheError::NotFound)),
                    None => err_resp(full, rh0, CacheError::NotFound) && v1 =~= v0.remove(k) && c1 == c0,
                }
            &&& (!(full is Error) ==> full is Append && resp_header(full) == plain_hdr(rh0, acked))
        },
        Base::Delete => {
            &&& post_delete(v0, k, q.header.cas, !(full is Error), full is Error && err_resp(full, rh0, CacheError::NotFound), full is Error && err_resp(full, rh0, CacheError::KeyExists), v1)
            &&& c1 == c0
            &&& (full is Error ==> err_resp(full, rh0, CacheError::NotFound) || err_resp(full, rh0, CacheError::KeyExists))
            &&& (!(full is Error) ==> full is Delete && resp_header(full) == rh0)
        },
        Base::Get | Base::GetKey => {
            &&& c1 == c0
            &&& match lookup(v0, now, k) {
                    Some(i) => {
                        let rk = if b is GetKey { k } else { Seq::<u8>::empty() };
                        &&& v1 == v0
                        &&& (full is Get || full is GetKey || full is GetQuietly || full is GetKeyQuietly)
                        &&& get_payload(full).0 == i.flags && get_payload(full).1 =~= rk && get_payload(full).2 =~= i.value
                        // C11: 4 flag bytes on hits, key echoed only by the get-key variants, body = extras + key + value
                        &&& resp_header(full) == (binary::ResponseHeader { extras_length: 4, key_length: rk.len() as u16, body_length: (4 + rk.len() + i.value.len()) as u32, cas: i.cas, ..rh0 })
                    },
                    None => err_resp(full, rh0, CacheError::NotFound) && v1 =~= v0.remove(k),
                }
        },
        Base::Incr | Base::Decr => {
            // the store sees the request CAS, the request expiration - and the request's opaque in the flags slot
            // of the meta data it is handed (into_record_meta); post_delta does not let it reach the item
            let hdr = CacheMetaData { timestamp: 0, cas: q.header.cas, flags: q.header.opaque, time_to_live: q.expiration };
            &&& store::post_delta(b is Incr, v0, c0, now, k, q.delta, q.initial, hdr, !(full is Error), resp_err(full), acked, counter_value(full), v1, c1)
            &&& (full is Error ==> err_resp(full, rh0, resp_err(full)))
            &&& (!(full is Error) ==> {
                    &&& (if b is Incr { full is Increment } else { full is Decrement })
                    // C11: 8 big-endian bytes for counters
                    &&& resp_header(full) == (binary::ResponseHeader { body_length: 8, cas: acked, ..rh0 })
                })
        },
        Base::Flush => {
            &&& post_flush(v0, now, q.expiration, v1) && c1 == c0
            &&& full is Flush && resp_header(full) == rh0
        },
        Base::Noop => s1 == s0 && full is Noop && resp_header(full) == rh0,
        Base::Quit => s1 == s0 && full is Quit && resp_header(full) == rh0,
        Base::Stats => s1 == s0 && full is Stats && resp_header(full) == rh0,
        Base::Version => {
            &&& s1 == s0 && full is Version
            &&& resp_header(full) == (binary::ResponseHeader { body_length: MEMCRS_VERSION.spec_bytes().len() as u32, ..rh0 })
            &&& string_bytes(full->Version_0.version) =~= MEMCRS_VERSION.spec_bytes()
        },
        // C13: refused with 'too large' (0x03); stores or changes nothing
        Base::TooLarge => s1 == s0 && err_resp(full, rh0, CacheError::ValueTooLarge),
        // C12: known but unimplemented opcodes are answered (0x81) and change nothing
        Base::NotSupported => s1 == s0 && err_resp(full, rh0, CacheError::UnkownCommand),
    }
}

// the error an error response reports (inverse of the status table on the codes the store produces)
pub open spec fn resp_err(r: BinaryResponse) -> CacheError {
    let st = resp_header(r).status;
    if st == 0x01 { CacheError::NotFound } else if st == 0x02 { CacheError::KeyExists } else if st == 0x03 { CacheError::ValueTooLarge }
    else if st == 0x04 { CacheError::InvalidArguments } else if st == 0x05 { CacheError::ItemNotStored } else if st == 0x06 { CacheError::ArithOnNonNumeric }
    else if st == 0x81 { CacheError::UnkownCommand } else if st == 0x82 { CacheError::OutOfMemory } else if st == 0x83 { CacheError::NotSupported }
    else if st == 0x84 { CacheError::InternalError } else if st == 0x85 { CacheError::Busy } else { CacheError::TemporaryFailure }
}

pub open spec fn get_payload(r: BinaryResponse) -> (u32, Seq<u8>, Seq<u8>) {
    match r {
        BinaryResponse::Get(x) => (x.flags, x.key@, x.value@),
        BinaryResponse::GetQuietly(x) => (x.flags, x.key@, x.value@),
        BinaryResponse::GetKey(x) => (x.flags, x.key@, x.value@),
        BinaryResponse::GetKeyQuietly(x) => (x.flags, x.key@, x.value@),
        _ => (0, Seq::empty(), Seq::empty()),
    }
}
pub open spec fn counter_value(r: BinaryResponse) -> u64 {
    match r {
        BinaryResponse::Increment(x) => x.value,
        BinaryResponse::Decrement(x) => x.value,
        _ => 0,
    }
}

// C12 + C19: what handle_request returns and does, for request view q
pub open spec fn handle_post(q: ReqView, s0: store::MemcStore, s1: store::MemcStore, r: Option<BinaryResponse>) -> bool {
    exists|full: BinaryResponse| #[trigger] is_resp(full) && loud_post(base_of(q.kind), payload(q), rh_init(q.header), s0, s1, full) && r == quiet_filter(q.kind, full)
}
// always true; only there to give the existential above a trigger that every response term matches
pub open spec fn is_resp(r: BinaryResponse) -> bool { true }
// the request without its variant tag: what a command's effect may depend on besides its base command (C19)
pub open spec fn payload(q: ReqView) -> ReqView { ReqView { kind: RK::Noop, ..q } }

// C11, lifted: every response handle_request can produce for request header h is a well-formed, correlated
// frame: magic 0x81, opcode and opaque echoed, data type 0, a status of the protocol table, and a body length
// equal to the bytes that follow (payload_bytes: what the encoder writes - unit codec_enc).
pub open spec fn status_in_table(st: u16) -> bool {
    st == 0 || st == 1 || st == 2 || st == 3 || st == 4 || st == 5 || st == 6 || st == 0x81 || st == 0x82 || st == 0x83 || st == 0x84 || st == 0x85 || st == 0x86
}
pub proof fn lemma_response_wellformed(b: Base, q: ReqView, h: binary::RequestHeader, s0: store::MemcStore, s1: store::MemcStore, full: BinaryResponse) // @ob C11 lemma.response_wellformed
    requires
        loud_post(b, q, rh_init(h), s0, s1, full),
        vals_small(s0.store.memory@), q.key.len() <= 250,
    ensures
        resp_header(full).magic == 0x81 && resp_header(full).opcode == h.opcode && resp_header(full).opaque == h.opaque && resp_header(full).data_type == 0,
        status_in_table(resp_header(full).status),
        full is Error <==> resp_header(full).status != 0,
        payload_bytes(full).len() == resp_header(full).body_length,
        (b is Get || b is GetKey) && !(full is Error) ==> resp_header(full).extras_length == 4 && resp_header(full).key_length == (if b is GetKey { q.key.len() } else { 0 }),
        (b is Incr || b is Decr) && !(full is Error) ==> resp_header(full).body_length == 8,
{
    if full is Error {
        lemma_error_text_short(resp_err(full));
        lemma_error_text_short(CacheError::NotFound); lemma_error_text_short(CacheError::KeyExists);
        lemma_error_text_short(CacheError::ValueTooLarge); lemma_error_text_short(CacheError::UnkownCommand);
        lemma_error_text_short(CacheError::ArithOnNonNumeric);
    }
    assert(enc32(0).len() == 4);
    assert(enc64(0).len() == 8);
    if b is Version { axiom_version_short(); }
}

// always true; trigger for existentials over an optional response (see is_resp)
pub open spec fn is_opt_resp(r: Option<BinaryResponse>) -> bool { true }

// what the decoder hands over is what the handler expects (kind selected by the opcode, key at most 250 bytes)
pub proof fn lemma_decoded_req_wf(x: BinaryRequest, h: binary::RequestHeader, b: Seq<u8>) // @ob C10,C12 lemma.decoded_req_wf
    requires req_matches(x, h, b), layout_lenient(h), b.len() >= h.body_length,
    ensures req_wf(req_view(x)),
{
}
