// vacuity probes for the bytes stand-ins: after each call `assert(false)` MUST fail (otherwise the assumed
// contract is contradictory and everything proved from it is worthless).  Only assembled in probe mode.
fn probe_standin_bytes_1(b: &mut BytesMut) requires old(b)@.len() >= 30 {
    let x = b.get_u8(); let y = b.get_u16(); let z = b.get_u32(); let w = b.get_u64(); let t = b.split_to(3); let f = t.freeze(); let l = f.len();
    proof { assert(false); } // @ob PROBE probe.standin.bytes.get_split
}
fn probe_standin_bytes_2(b: &mut BytesMut, s: &[u8], v: Bytes) {
    b.put_u8(1); b.put_u16(2); b.put_u32(3); b.put_u64(4); b.put_slice(s); b.extend_from_slice(s); b.put(v.clone()); b.reserve(10); let c = b.capacity(); let e = b.is_empty();
    proof { assert(false); } // @ob PROBE probe.standin.bytes.put
}
fn probe_standin_bytes_3(b: &mut BytesMut) requires old(b)@.len() >= 5 {
    b.advance(2); let o = b.split_off(1); b.clear(); let n = BytesMut::new(); let m = BytesMut::with_capacity(7); let k = Bytes::new();
    proof { assert(false); } // @ob PROBE probe.standin.bytes.advance_clear
}
