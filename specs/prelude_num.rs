// ---------------------------------------------------------------------------------------------
// Stand-ins for the std text<->number functions add_delta uses (DESIGN 4.2).  ASSUMED.
// R12b replaces the three inherent-method calls that cannot be given a Verus specification in place:
//   value.parse::<u64>() -> parse_u64(value)      x.to_string() -> u64_to_string(x)
// ---------------------------------------------------------------------------------------------
pub mod str {
    use vstd::prelude::*;
    use vstd::string::*;
    pub struct Utf8Error {}
    // str::from_utf8: Ok exactly the same bytes; ASCII text is always valid UTF-8
    #[verifier::external_body]
    pub fn from_utf8(b: &[u8]) -> (r: core::result::Result<&str, Utf8Error>)
        ensures r is Ok ==> r->Ok_0.spec_bytes() == b@,
                (forall|i: int| 0 <= i < b@.len() ==> #[trigger] b@[i] < 0x80) ==> r is Ok,
    { unimplemented!() }
}
pub struct ParseIntError {}
// <u64 as FromStr>::from_str: an optional leading '+', then one or more decimal digits, value below 2^64
#[verifier::external_body]
pub fn parse_u64(s: &str) -> (r: core::result::Result<u64, ParseIntError>)
    ensures numeric_u64(s.spec_bytes()) ==> r is Ok && r->Ok_0 == dec_val(s.spec_bytes()),
            !numeric_u64(s.spec_bytes()) && !plus_numeric(s.spec_bytes()) ==> r is Err,
{ unimplemented!() }
// <u64 as ToString>::to_string: canonical decimal text
#[verifier::external_body]
pub fn u64_to_string(v: u64) -> (r: String)
    ensures string_bytes(r) == dec_text(v as nat),
{ unimplemented!() }
