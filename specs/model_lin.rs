// ---------------------------------------------------------------------------------------------
// Linearization-point contracts (C03, C04).  Spec only.
// An operation is linearizable if, among the atomic accesses it makes to the shared state, exactly one (its
// linearization point) has the sequential effect of the operation together with the value it returns, and every
// other access changes nothing a client can observe - in WHATEVER state other threads have produced by then.
// ---------------------------------------------------------------------------------------------
pub open spec fn noop(a: Access, now: u64) -> bool { same_observations(a.pre, a.post, now) }

pub open spec fn new_accesses(l0: Seq<Access>, l1: Seq<Access>) -> Seq<Access> { l1.subrange(l0.len() as int, l1.len() as int) }
pub open spec fn extends(l0: Seq<Access>, l1: Seq<Access>) -> bool { l0.len() <= l1.len() && l1.subrange(0, l0.len() as int) =~= l0 }

// exactly one linearization point among at most three accesses, all others observational no-ops
pub open spec fn one_lp(e: Seq<Access>, lp: spec_fn(Access) -> bool, now: u64) -> bool {
    ||| (e.len() == 1 && lp(e[0]))
    ||| (e.len() == 2 && ((lp(e[0]) && noop(e[1], now)) || (noop(e[0], now) && lp(e[1]))))
    ||| (e.len() == 3 && ((lp(e[0]) && noop(e[1], now) && noop(e[2], now)) || (noop(e[0], now) && lp(e[1]) && noop(e[2], now)) || (noop(e[0], now) && noop(e[1], now) && lp(e[2]))))
}

// sequential effect of a retrieval, observationally (the physical collection of an expired record is a no-op)
pub open spec fn lin_get(a: Access, now: u64, k: Seq<u8>, r: Result<Record>) -> bool {
    &&& same_observations(a.pre, a.post, now)
    &&& match lookup(a.pre, now, k) {
            Some(i) => r is Ok && same_item(item_of(r->Ok_0), i),
            None => r is Err && r->Err_0 == CacheError::NotFound,
        }
}
// sequential effect of a store (C01/C02 without the counter clauses, which are proved in unit server)
pub open spec fn lin_set(a: Access, now: u64, k: Seq<u8>, value: Seq<u8>, flags: u32, ttl: u32, req_cas: u64, r: Result<SetStatus>) -> bool {
    let present = lookup(a.pre, now, k) is Some || a.pre.contains_key(k);
    if req_cas == 0 {
        r is Ok && r->Ok_0.cas != 0 && a.post =~= a.pre.insert(k, stored_item(value, flags, ttl, now, r->Ok_0.cas))
    } else if a.pre.contains_key(k) {
        if a.pre[k].cas != req_cas { r is Err && r->Err_0 == CacheError::KeyExists && a.post =~= a.pre }
        else { r is Ok && r->Ok_0.cas != 0 && a.post =~= a.pre.insert(k, stored_item(value, flags, ttl, now, r->Ok_0.cas)) }
    } else {
        (r is Ok ==> r->Ok_0.cas != 0 && a.post =~= a.pre.insert(k, stored_item(value, flags, ttl, now, r->Ok_0.cas)))
        && (r is Err ==> a.post =~= a.pre)
    }
}

// ---- C04: read-modify-write commands over an atomic store (each store call is one step, justified by C03) ----
pub open spec fn lin_add(a: Access, now: u64, k: Seq<u8>, rec: Record, r: Result<SetStatus>) -> bool {
    match lookup(a.pre, now, k) {
        Some(i) => r is Err && r->Err_0 == CacheError::KeyExists && same_observations(a.pre, a.post, now),
        None => r is Ok ==> lookup(a.post, now, k) is Some && lookup(a.post, now, k)->Some_0.value =~= rec.value@,
    }
}
pub open spec fn lin_replace(a: Access, now: u64, k: Seq<u8>, rec: Record, r: Result<SetStatus>) -> bool {
    match lookup(a.pre, now, k) {
        Some(i) => r is Ok ==> lookup(a.post, now, k) is Some && lookup(a.post, now, k)->Some_0.value =~= rec.value@,
        None => r is Err && r->Err_0 == CacheError::NotFound && same_observations(a.pre, a.post, now),
    }
}
pub open spec fn lin_concat(front: bool, a: Access, now: u64, k: Seq<u8>, rec: Record, r: Result<SetStatus>) -> bool {
    match lookup(a.pre, now, k) {
        Some(i) => r is Ok ==> lookup(a.post, now, k) is Some
            && lookup(a.post, now, k)->Some_0.value =~= (if front { rec.value@ + i.value } else { i.value + rec.value@ }),
        None => r is Err && r->Err_0 == CacheError::NotFound && same_observations(a.pre, a.post, now),
    }
}
pub open spec fn lin_delta(incr: bool, a: Access, now: u64, k: Seq<u8>, delta: u64, initial: u64, no_create: bool, ok: bool, value: u64) -> bool {
    match lookup(a.pre, now, k) {
        Some(i) => numeric_u64(i.value) ==> (ok ==> {
            let nv = delta_apply(incr, dec_val(i.value) as u64, delta);
            value == nv && lookup(a.post, now, k) is Some && lookup(a.post, now, k)->Some_0.value =~= dec_text(nv as nat)
        }),
        None => if no_create { !ok && same_observations(a.pre, a.post, now) } else { ok ==> value == initial && lookup(a.post, now, k) is Some },
    }
}
