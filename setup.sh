#!/bin/bash
# Run once after a fresh restore, offline: builds the replay crate against /repo and warms Verus.
cd "$(dirname "$0")"
export CARGO_NET_OFFLINE=true
mkdir -p build evidence replays
( cd replay && CARGO_TARGET_DIR=../build/replay-target cargo build --offline -q 2>&1 | tail -3 ) || echo "replay crate did not build (witness search disabled)"
verus --version >/dev/null 2>&1 || { echo "verus missing"; exit 1; }
exit 0
