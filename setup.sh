#!/bin/bash
# Run once after a fresh restore, offline: builds the replay crate against /repo, warms Verus and the Kani
# dependency build (the harness results themselves are re-computed by the checks whenever /repo changes).
cd "$(dirname "$0")"
export CARGO_NET_OFFLINE=true
mkdir -p build evidence replays
( cd replay && CARGO_TARGET_DIR=../build/replay-target cargo build --offline -q --bin replay 2>&1 | tail -3; CARGO_TARGET_DIR=../build/replay-target cargo build --offline -q --bin steps 2>&1 | tail -3 ) || echo "replay crate did not build (witness search disabled)"
verus --version >/dev/null 2>&1 || { echo "verus missing"; exit 1; }
# differential smoke test of the stand-in contracts against the real bytes / dashmap crates
./build/replay-target/debug/replay standins ${VERIF_SEED:-1} 300 > build/standins_selfcheck.txt 2>&1; cat build/standins_selfcheck.txt
# warm-up: one Verus unit and one Kani harness (fills build/kani-target; about 3 minutes cold)
python3 tools/assemble.py codec_enc >/dev/null 2>&1 && ( cd build/units && verus codec_enc.rs >/dev/null 2>&1 )
python3 -c "
import sys; sys.path.insert(0,'tools')
import kanitool
r = kanitool.run_harness('store_delete','quick'); print('kani warm-up:', r.get('status'), r.get('wall'))
" 2>&1 | tail -1
exit 0
