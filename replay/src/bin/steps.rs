//! Step-level two-thread schedules on the REAL store stack (C16; bounded stand-in, DESIGN 12.7).
//!
//! The stack is   MemcStore -> StepCache(outer) -> [RandomPolicy ->] StepCache(inner) -> MemoryStore(StepTimer)
//! where StepCache is a pass-through implementation of the public `Cache` trait.  Every call that thread 1 makes
//! through one of the pass-through layers (and every `timestamp()` call) is a STEP POINT; thread 1 can be parked
//! BEFORE its n-th step point while thread 2 runs whole commands, and is then released.  Required (C16): every
//! command returns - thread 2's commands while thread 1 is parked or after it was released, and thread 1 after
//! its release.  The driver also prints both sequential orders so that a caller can compare outcomes.
//!
//! It lives in its own binary because it IMPLEMENTS the `Cache` trait: a change that adds a required method to that
//! trait stops this binary from building, and must not take the other run-time drivers with it.
//!
//! stdin:  policy none|random <limit>     init <op> (repeatable)     tick <n>
//!         t1 <op>     park <n> (0 = dry run: count the step points)     t2 <op> (repeatable)     final <op> (repeatable)
//!         t2par <op> (repeatable): like t2, but all of them run concurrently with one another (three or more clients)
//! ops:    get k | set k v cas ttl | delete k cas | add k v | replace k v | append k v | prepend k v | incr k d | decr k d | flush delay
//! stdout: steps <n> <trace>     cas-issued <CAS values acknowledged by the two threads' mutations>     concurrent t1=.. t2=.. final=..     seq12 ..     seq21 ..     completes true|false
use memcrs::cache::cache::{impl_details::CacheImplDetails, Cache, CacheMetaData, CachePredicate, CacheReadOnlyView, KeyType, Record, RemoveIfResult, SetStatus};
use memcrs::cache::error::Result;
use memcrs::memcache::random_policy::RandomPolicy;
use memcrs::memcache::store::MemcStore;
use memcrs::memory_store::store::MemoryStore;
use memcrs::server::timer::Timer;
use std::io::BufRead;
use std::sync::atomic::{AtomicU64, AtomicUsize, Ordering};
use std::sync::{Arc, Condvar, Mutex};

// CAS values acknowledged by successful mutations, in completion order (cleared by the caller)
static CAS_LOG: Mutex<Vec<u64>> = Mutex::new(Vec::new());

pub struct Ctl {
    now: AtomicU64,
    park_at: AtomicUsize, // 0 = never park
    t1_steps: AtomicUsize,
    t1_id: Mutex<Option<std::thread::ThreadId>>,
    state: Mutex<(bool, bool)>, // (parked, released)
    cv: Condvar,
    trace: Mutex<Vec<String>>,
}
impl Ctl {
    fn new() -> Self {
        Ctl { now: AtomicU64::new(0), park_at: AtomicUsize::new(0), t1_steps: AtomicUsize::new(0), t1_id: Mutex::new(None), state: Mutex::new((false, false)), cv: Condvar::new(), trace: Mutex::new(vec![]) }
    }
    fn step(&self, what: &str) {
        let me = std::thread::current().id();
        if *self.t1_id.lock().unwrap() != Some(me) { return; }
        let n = self.t1_steps.fetch_add(1, Ordering::SeqCst) + 1;
        self.trace.lock().unwrap().push(what.to_string());
        if n == self.park_at.load(Ordering::SeqCst) {
            let mut st = self.state.lock().unwrap();
            st.0 = true;
            self.cv.notify_all();
            while !st.1 { st = self.cv.wait(st).unwrap(); }
        }
    }
    fn release(&self) { let mut st = self.state.lock().unwrap(); st.1 = true; self.cv.notify_all(); }
}

struct StepTimer(Arc<Ctl>);
impl Timer for StepTimer {
    fn timestamp(&self) -> u64 { self.0.step("timer.timestamp"); self.0.now.load(Ordering::SeqCst) }
}

struct StepCache { inner: Arc<dyn Cache + Send + Sync>, ctl: Arc<Ctl>, layer: &'static str }
impl StepCache { fn at(&self, m: &str) { self.ctl.step(&format!("{}.{}", self.layer, m)); } }
impl CacheImplDetails for StepCache {
    fn get_by_key(&self, key: &KeyType) -> Result<Record> { self.at("get_by_key"); self.inner.get_by_key(key) }
    fn check_if_expired(&self, key: &KeyType, record: &Record) -> bool { self.at("check_if_expired"); self.inner.check_if_expired(key, record) }
}
impl Cache for StepCache {
    fn get(&self, key: &KeyType) -> Result<Record> { self.at("get"); self.inner.get(key) }
    fn set(&self, key: KeyType, record: Record) -> Result<SetStatus> { self.at("set"); self.inner.set(key, record) }
    fn delete(&self, key: KeyType, header: CacheMetaData) -> Result<Record> { self.at("delete"); self.inner.delete(key, header) }
    fn flush(&self, header: CacheMetaData) { self.at("flush"); self.inner.flush(header) }
    fn len(&self) -> usize { self.at("len"); self.inner.len() }
    fn is_empty(&self) -> bool { self.at("is_empty"); self.inner.is_empty() }
    fn as_read_only(&self) -> Box<dyn CacheReadOnlyView> { self.inner.as_read_only() }
    fn remove_if(&self, f: &mut CachePredicate) -> RemoveIfResult { self.at("remove_if"); self.inner.remove_if(f) }
    fn remove(&self, key: &KeyType) -> Option<(KeyType, Record)> { self.at("remove"); self.inner.remove(key) }
}

fn frame(op: u8, key: &[u8], extras: &[u8], value: &[u8], cas: u64) -> Vec<u8> {
    let mut v = Vec::new();
    v.push(0x80); v.push(op);
    v.extend_from_slice(&(key.len() as u16).to_be_bytes());
    v.push(extras.len() as u8); v.push(0);
    v.extend_from_slice(&0u16.to_be_bytes());
    v.extend_from_slice(&((key.len() + extras.len() + value.len()) as u32).to_be_bytes());
    v.extend_from_slice(&0u32.to_be_bytes());
    v.extend_from_slice(&cas.to_be_bytes());
    v.extend_from_slice(extras); v.extend_from_slice(key); v.extend_from_slice(value);
    v
}

// every operation goes decode -> BinaryHandler::handle_request -> encode, i.e. the real request path
fn run_op(store: &Arc<MemcStore>, op: &[String]) -> String {
    use tokio_util::codec::{Decoder, Encoder};
    let k: &[u8] = if op[0] == "flush" { b"" } else { op[1].as_bytes() };
    let val = |i: usize| op.get(i).cloned().unwrap_or_default().into_bytes();
    let num = |i: usize| op.get(i).map(|s| s.parse::<u64>().unwrap()).unwrap_or(0);
    let set_extras = |ttl: u64| { let mut e = vec![0u8; 4]; e.extend_from_slice(&(ttl as u32).to_be_bytes()); e };
    let delta_extras = |d: u64| { let mut e = d.to_be_bytes().to_vec(); e.extend_from_slice(&7u64.to_be_bytes()); e.extend_from_slice(&0u32.to_be_bytes()); e };
    let bytes = match op[0].as_str() {
        "get" => frame(0x00, k, &[], &[], 0),
        "set" => frame(0x01, k, &set_extras(num(4)), &val(2), num(3)),
        "delete" => frame(0x04, k, &[], &[], num(2)),
        "add" => frame(0x02, k, &set_extras(0), &val(2), 0),
        "replace" => frame(0x03, k, &set_extras(0), &val(2), 0),
        "append" => frame(0x0e, k, &[], &val(2), 0),
        "prepend" => frame(0x0f, k, &[], &val(2), 0),
        "incr" => frame(0x05, k, &delta_extras(num(2)), &[], 0),
        "decr" => frame(0x06, k, &delta_extras(num(2)), &[], 0),
        "flush" => { let d = num(1); if d == 0 { frame(0x08, b"", &[], &[], 0) } else { frame(0x08, b"", &(d as u32).to_be_bytes(), &[], 0) } }
        x => return format!("bad-op:{}", x),
    };
    let mut codec = memcrs::protocol::binary_codec::MemcacheBinaryCodec::new(1 << 20);
    let mut buf = bytes::BytesMut::from(&bytes[..]);
    let req = match codec.decode(&mut buf) { Ok(Some(r)) => r, _ => return "decode-failed".to_string() };
    let handler = memcrs::memcache_server::handler::BinaryHandler::new(store.clone());
    let resp = match handler.handle_request(req) { Some(r) => r, None => return "silent".to_string() };
    let mut out = bytes::BytesMut::new();
    codec.encode(resp, &mut out).unwrap();
    let status = u16::from_be_bytes([out[6], out[7]]);
    let extras = out[4] as usize;
    let body = &out[24..];
    if status != 0 { return format!("err:{}", status); }
    if op[0] != "get" && op[0] != "flush" && op[0] != "delete" {
        let cas = u64::from_be_bytes(out[16..24].try_into().unwrap());
        CAS_LOG.lock().unwrap().push(cas);
    }
    match op[0].as_str() {
        "get" => format!("hit:{}", String::from_utf8_lossy(&body[extras..])),
        "incr" | "decr" => format!("val:{}", u64::from_be_bytes(body[..8].try_into().unwrap())),
        _ => "ok".to_string(),
    }
}

struct Scenario { policy: Option<u64>, init: Vec<Vec<String>>, ticks_after_init: u64, t1: Vec<String>, park: usize, t2: Vec<Vec<String>>, t2par: bool, fin: Vec<Vec<String>> }

fn build(policy: Option<u64>) -> (Arc<Ctl>, Arc<MemcStore>) {
    let ctl = Arc::new(Ctl::new());
    let engine: Arc<dyn Cache + Send + Sync> = Arc::new(MemoryStore::new(Arc::new(StepTimer(ctl.clone()))));
    let below: Arc<dyn Cache + Send + Sync> = match policy {
        Some(l) => Arc::new(RandomPolicy::new(Arc::new(StepCache { inner: engine, ctl: ctl.clone(), layer: "inner" }), l)),
        None => engine,
    };
    let top: Arc<dyn Cache + Send + Sync> = Arc::new(StepCache { inner: below, ctl: ctl.clone(), layer: "outer" });
    (ctl, Arc::new(MemcStore::new(top)))
}

// runs `f` on a fresh thread; None if it does not return within `ms`
fn with_watchdog<F: FnOnce() -> String + Send + 'static>(f: F, ms: u64) -> Option<String> {
    let h = std::thread::spawn(f);
    let mut n = 0;
    while !h.is_finished() && n < ms / 2 { std::thread::sleep(std::time::Duration::from_millis(2)); n += 1; }
    if h.is_finished() { Some(h.join().unwrap_or_else(|_| "panic".to_string())) } else { None }
}

fn sequential(s: &Scenario, t1_first: bool) -> String {
    let (ctl, store) = build(s.policy);
    for op in &s.init { run_op(&store, op); }
    ctl.now.fetch_add(s.ticks_after_init, Ordering::SeqCst);
    let mut all: Vec<Vec<String>> = vec![];
    if t1_first { all.push(s.t1.clone()); }
    all.extend(s.t2.iter().cloned());
    if !t1_first { all.push(s.t1.clone()); }
    all.extend(s.fin.iter().cloned());
    let st = store.clone();
    let r = with_watchdog(move || all.iter().map(|op| run_op(&st, op)).collect::<Vec<_>>().join(","), 4000);
    r.unwrap_or_else(|| "HUNG".to_string())
}

fn dry_run(s: &Scenario) -> (usize, Vec<String>, bool) {
    let (ctl, store) = build(s.policy);
    for op in &s.init { run_op(&store, op); }
    ctl.now.fetch_add(s.ticks_after_init, Ordering::SeqCst);
    let c = ctl.clone();
    let st = store.clone();
    let op = s.t1.clone();
    let r = with_watchdog(move || { *c.t1_id.lock().unwrap() = Some(std::thread::current().id()); run_op(&st, &op) }, 4000);
    let tr = ctl.trace.lock().unwrap().clone();
    (ctl.t1_steps.load(Ordering::SeqCst), tr, r.is_some())
}

fn concurrent(s: &Scenario) -> (String, bool) {
    let (ctl, store) = build(s.policy);
    for op in &s.init { run_op(&store, op); }
    ctl.now.fetch_add(s.ticks_after_init, Ordering::SeqCst);
    ctl.park_at.store(s.park, Ordering::SeqCst);
    CAS_LOG.lock().unwrap().clear();
    let (st1, c1, op1) = (store.clone(), ctl.clone(), s.t1.clone());
    let h = std::thread::spawn(move || { *c1.t1_id.lock().unwrap() = Some(std::thread::current().id()); run_op(&st1, &op1) });
    let mut waited = 0;
    loop {
        { let st = ctl.state.lock().unwrap(); if st.0 { break; } }
        if h.is_finished() { break; }
        std::thread::sleep(std::time::Duration::from_millis(1));
        waited += 1;
        if waited > 4000 { break; }
    }
    let parked = ctl.state.lock().unwrap().0;
    let mut completes = true;
    let mut r2 = Vec::new();
    let mut released = false;
    if s.t2par {
        // all of thread 2's commands run concurrently with one another (three or more clients)
        let hs: Vec<_> = s.t2.iter().map(|op| { let (st2, op2) = (store.clone(), op.clone()); std::thread::spawn(move || run_op(&st2, &op2)) }).collect();
        let mut n = 0;
        while hs.iter().any(|h| !h.is_finished()) && n < 200 { std::thread::sleep(std::time::Duration::from_millis(1)); n += 1; }
        if hs.iter().any(|h| !h.is_finished()) { ctl.release(); released = true; }
        let mut n = 0;
        while hs.iter().any(|h| !h.is_finished()) && n < 3000 { std::thread::sleep(std::time::Duration::from_millis(1)); n += 1; }
        for h in hs { if h.is_finished() { r2.push(h.join().unwrap_or_else(|_| "panic".to_string())); } else { r2.push("BLOCKED".to_string()); completes = false; } }
    }
    for op in s.t2.iter().filter(|_| !s.t2par) {
        let (st2, op2) = (store.clone(), op.clone());
        let h2 = std::thread::spawn(move || run_op(&st2, &op2));
        let mut n = 0;
        while !h2.is_finished() && n < 200 { std::thread::sleep(std::time::Duration::from_millis(1)); n += 1; }
        // not returned within 200 ms: it is (legitimately) waiting for a lock thread 1 holds; release thread 1
        if !h2.is_finished() && !released { ctl.release(); released = true; }
        let mut n = 0;
        while !h2.is_finished() && n < 3000 { std::thread::sleep(std::time::Duration::from_millis(1)); n += 1; }
        if h2.is_finished() { r2.push(h2.join().unwrap_or_else(|_| "panic".to_string())); } else { r2.push("BLOCKED".to_string()); completes = false; }
    }
    if !released { ctl.release(); }
    let mut n = 0;
    while !h.is_finished() && n < 3000 { std::thread::sleep(std::time::Duration::from_millis(1)); n += 1; }
    let r1 = if h.is_finished() { h.join().unwrap_or_else(|_| "panic".to_string()) } else { completes = false; "HUNG".to_string() };
    println!("cas-issued {}", CAS_LOG.lock().unwrap().iter().map(|c| c.to_string()).collect::<Vec<_>>().join(","));
    let fin: Vec<String> = if completes {
        let (st, f) = (store.clone(), s.fin.clone());
        match with_watchdog(move || f.iter().map(|op| run_op(&st, op)).collect::<Vec<_>>().join(","), 3000) { Some(x) => vec![x], None => { completes = false; vec!["HUNG".to_string()] } }
    } else { vec!["skipped".to_string()] };
    (format!("t1={} t2={} final={}{}", r1, r2.join(","), fin.join(","), if parked { "" } else { " (park point not reached)" }), completes)
}

fn main() {
    let stdin = std::io::stdin();
    let mut s = Scenario { policy: None, init: vec![], ticks_after_init: 0, t1: vec![], park: 0, t2: vec![], t2par: false, fin: vec![] };
    for l in stdin.lock().lines() {
        let l = l.unwrap();
        let w: Vec<String> = l.split_whitespace().map(|x| x.to_string()).collect();
        if w.is_empty() { continue; }
        match w[0].as_str() {
            "policy" => { if w[1] == "random" { s.policy = Some(w[2].parse().unwrap()); } }
            "init" => s.init.push(w[1..].to_vec()),
            "tick" => s.ticks_after_init += w[1].parse::<u64>().unwrap(),
            "t1" => s.t1 = w[1..].to_vec(),
            "park" => s.park = w[1].parse().unwrap(),
            "t2" => s.t2.push(w[1..].to_vec()),
            "t2par" => { s.t2.push(w[1..].to_vec()); s.t2par = true; }
            "final" => s.fin.push(w[1..].to_vec()),
            _ => {}
        }
    }
    if s.park == 0 {
        let (n, tr, done) = dry_run(&s);
        println!("steps {} {}", n, tr.join(","));
        println!("completes {}", done);
    } else {
        let (c, ok) = concurrent(&s);
        println!("concurrent {}", c);
        println!("seq12 {}", sequential(&s, true));
        println!("seq21 {}", sequential(&s, false));
        println!("completes {}", ok);
    }
    // threads that hang must not keep the process alive
    std::process::exit(0);
}
