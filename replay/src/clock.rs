//! Run-time twin for the clock (C05 rests on it): the REAL `SystemTimer` is ticked `n` times with `add_second` and
//! `timestamp()` must read exactly the number of ticks after each one.  BOUNDED by `n` (default 2^23 seconds = 97 days,
//! which covers the 30-day TTL range of C05).   usage: replay clock [n]
use memcrs::server::timer::{SetableTimer, SystemTimer, Timer};

pub fn main(args: &[String]) {
    let n: u64 = args.get(0).and_then(|s| s.parse().ok()).unwrap_or(1 << 23);
    let t = SystemTimer::new();
    if t.timestamp() != 0 { println!("bad 0 {}", t.timestamp()); return; }
    for i in 1..=n {
        t.add_second();
        let got = t.timestamp();
        if got != i { println!("bad {} {}", i, got); return; }
    }
    println!("ok {}", n);
}
