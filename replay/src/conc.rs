//! Deterministic two-thread schedules on the REAL store, through public API only (DESIGN C03/C04):
//! `Timer` is a public trait; a ParkTimer parks thread 1 at its n-th `timestamp()` call while thread 2 runs
//! its operations to completion, then releases thread 1.  The outcome is compared with both sequential
//! orders executed on fresh stores (the real code is its own oracle).
//! stdin:  policy none|random <limit>
//!         init <op>            (repeatable; executed sequentially first)     tick <n>
//!         t1 <op>              park <n>        t2 <op> (repeatable)          final <op> (repeatable)
//! ops:    get k | set k v cas ttl | delete k cas | add k v | replace k v | append k v | prepend k v | incr k d | decr k d
//! stdout: concurrent <results>   seq12 <results>   seq21 <results>   linearizable true|false
use memcrs::cache::cache::Cache;
use memcrs::memcache::builder::{MemcacheStoreBuilder, MemcacheStoreConfig};
use memcrs::memcache::eviction_policy::EvictionPolicy;
use memcrs::memcache::store::MemcStore;
use memcrs::server::timer::Timer;
use std::io::BufRead;
use std::sync::atomic::{AtomicU64, AtomicUsize, Ordering};
use std::sync::{Arc, Condvar, Mutex};

pub struct ParkTimer {
    now: AtomicU64,
    park_call: AtomicUsize,          // 0 = never park
    t1_calls: AtomicUsize,
    t1_id: Mutex<Option<std::thread::ThreadId>>,
    state: Mutex<(bool, bool)>,      // (parked, released)
    cv: Condvar,
}
impl ParkTimer {
    fn new() -> Self { ParkTimer { now: AtomicU64::new(0), park_call: AtomicUsize::new(0), t1_calls: AtomicUsize::new(0), t1_id: Mutex::new(None), state: Mutex::new((false, false)), cv: Condvar::new() } }
}
impl Timer for ParkTimer {
    fn timestamp(&self) -> u64 {
        let me = std::thread::current().id();
        let is_t1 = *self.t1_id.lock().unwrap() == Some(me);
        if is_t1 {
            let n = self.t1_calls.fetch_add(1, Ordering::SeqCst) + 1;
            if n == self.park_call.load(Ordering::SeqCst) {
                let mut st = self.state.lock().unwrap();
                st.0 = true;
                self.cv.notify_all();
                while !st.1 { st = self.cv.wait(st).unwrap(); }
            }
        }
        self.now.load(Ordering::SeqCst)
    }
}

fn frame(op: u8, key: &[u8], extras: &[u8], value: &[u8], cas: u64) -> Vec<u8> {
    let mut v = Vec::new();
    v.push(0x80); v.push(op);
    v.extend_from_slice(&(key.len() as u16).to_be_bytes());
    v.push(extras.len() as u8); v.push(0);
    v.extend_from_slice(&0u16.to_be_bytes());
    v.extend_from_slice(&((key.len() + extras.len() + value.len()) as u32).to_be_bytes());
    v.extend_from_slice(&0u32.to_be_bytes());
    v.extend_from_slice(&cas.to_be_bytes());
    v.extend_from_slice(extras); v.extend_from_slice(key); v.extend_from_slice(value);
    v
}

// every operation goes decode -> BinaryHandler::handle_request -> encode, i.e. the real request path
fn run_op(store: &Arc<MemcStore>, op: &[String]) -> String {
    use tokio_util::codec::{Decoder, Encoder};
    let k = op[1].as_bytes();
    let val = |i: usize| op.get(i).cloned().unwrap_or_default().into_bytes();
    let num = |i: usize| op.get(i).map(|s| s.parse::<u64>().unwrap()).unwrap_or(0);
    let set_extras = |ttl: u64| { let mut e = vec![0u8; 4]; e.extend_from_slice(&(ttl as u32).to_be_bytes()); e };
    let delta_extras = |d: u64| { let mut e = d.to_be_bytes().to_vec(); e.extend_from_slice(&0u64.to_be_bytes()); e.extend_from_slice(&0u32.to_be_bytes()); e };
    let bytes = match op[0].as_str() {
        "get" => frame(0x00, k, &[], &[], 0),
        "set" => frame(0x01, k, &set_extras(num(4)), &val(2), num(3)),
        "delete" => frame(0x04, k, &[], &[], num(2)),
        "add" => frame(0x02, k, &set_extras(0), &val(2), 0),
        "replace" => frame(0x03, k, &set_extras(0), &val(2), 0),
        "append" => frame(0x0e, k, &[], &val(2), 0),
        "prepend" => frame(0x0f, k, &[], &val(2), 0),
        "incr" => frame(0x05, k, &delta_extras(num(2)), &[], 0),
        "decr" => frame(0x06, k, &delta_extras(num(2)), &[], 0),
        x => return format!("bad-op:{}", x),
    };
    let mut codec = memcrs::protocol::binary_codec::MemcacheBinaryCodec::new(1 << 20);
    let mut buf = bytes::BytesMut::from(&bytes[..]);
    let req = codec.decode(&mut buf).unwrap().unwrap();
    let handler = memcrs::memcache_server::handler::BinaryHandler::new(store.clone());
    let resp = handler.handle_request(req).unwrap();
    let mut out = bytes::BytesMut::new();
    codec.encode(resp, &mut out).unwrap();
    let status = u16::from_be_bytes([out[6], out[7]]);
    let extras = out[4] as usize;
    let body = &out[24..];
    if status != 0 { return format!("err:{}", status); }
    match op[0].as_str() {
        "get" => format!("hit:{}", String::from_utf8_lossy(&body[extras..])),
        "incr" | "decr" => format!("val:{}", u64::from_be_bytes(body[..8].try_into().unwrap())),
        _ => "ok".to_string(),
    }
}

struct Scenario { policy: Option<u64>, init: Vec<Vec<String>>, ticks_after_init: u64, t1: Vec<String>, park: usize, t2: Vec<Vec<String>>, fin: Vec<Vec<String>> }

fn build(policy: Option<u64>) -> (Arc<ParkTimer>, Arc<MemcStore>) {
    let timer = Arc::new(ParkTimer::new());
    let cfg = match policy { Some(l) => MemcacheStoreConfig::new(l, EvictionPolicy::Random), None => MemcacheStoreConfig::new(u64::MAX, EvictionPolicy::None) };
    let cache: Arc<dyn Cache + Send + Sync> = MemcacheStoreBuilder::from_config(cfg, timer.clone());
    (timer, Arc::new(MemcStore::new(cache)))
}

fn sequential(s: &Scenario, t1_first: bool) -> String {
    let (timer, store) = build(s.policy);
    for op in &s.init { run_op(&store, op); }
    timer.now.fetch_add(s.ticks_after_init, Ordering::SeqCst);
    let mut r1 = String::new();
    let mut r2 = Vec::new();
    if t1_first { r1 = run_op(&store, &s.t1); }
    for op in &s.t2 { r2.push(run_op(&store, op)); }
    if !t1_first { r1 = run_op(&store, &s.t1); }
    let fin: Vec<String> = s.fin.iter().map(|op| run_op(&store, op)).collect();
    format!("t1={} t2={} final={}", r1, r2.join(","), fin.join(","))
}

fn concurrent(s: &Scenario) -> String {
    let (timer, store) = build(s.policy);
    for op in &s.init { run_op(&store, op); }
    timer.now.fetch_add(s.ticks_after_init, Ordering::SeqCst);
    timer.park_call.store(s.park, Ordering::SeqCst);
    let st1 = store.clone();
    let tm1 = timer.clone();
    let op1 = s.t1.clone();
    let h = std::thread::spawn(move || {
        *tm1.t1_id.lock().unwrap() = Some(std::thread::current().id());
        run_op(&st1, &op1)
    });
    // wait until thread 1 is parked (or finished without reaching the park point)
    let mut waited = 0;
    loop {
        { let st = timer.state.lock().unwrap(); if st.0 { break; } }
        if h.is_finished() { break; }
        std::thread::sleep(std::time::Duration::from_millis(2));
        waited += 1;
        if waited > 2500 { break; }
    }
    let parked = timer.state.lock().unwrap().0;
    let mut r2 = Vec::new();
    // Thread 2's operations run while thread 1 is parked.  If one of them does not return within 300 ms it is
    // (legitimately) waiting for a lock thread 1 holds: thread 1 is released and the operation is given 3 more
    // seconds; only an operation that still does not return is BLOCKED (C16).
    let mut released = false;
    for op in &s.t2 {
        let st2 = store.clone();
        let op2 = op.clone();
        let h2 = std::thread::spawn(move || run_op(&st2, &op2));
        let mut n = 0;
        while !h2.is_finished() && n < 150 { std::thread::sleep(std::time::Duration::from_millis(2)); n += 1; }
        if !h2.is_finished() && !released {
            let mut st = timer.state.lock().unwrap(); st.1 = true; timer.cv.notify_all(); released = true;
        }
        let mut n = 0;
        while !h2.is_finished() && n < 1500 { std::thread::sleep(std::time::Duration::from_millis(2)); n += 1; }
        if h2.is_finished() { r2.push(h2.join().unwrap()); } else { r2.push("BLOCKED".to_string()); }
    }
    if !released { let mut st = timer.state.lock().unwrap(); st.1 = true; timer.cv.notify_all(); }
    let r1 = h.join().unwrap();
    let fin: Vec<String> = s.fin.iter().map(|op| run_op(&store, op)).collect();
    format!("t1={} t2={} final={}{}", r1, r2.join(","), fin.join(","), if parked { "" } else { " (park point not reached)" })
}

pub fn main(_args: &[String]) {
    let stdin = std::io::stdin();
    let mut s = Scenario { policy: None, init: vec![], ticks_after_init: 0, t1: vec![], park: 0, t2: vec![], fin: vec![] };
    for l in stdin.lock().lines() {
        let l = l.unwrap();
        let w: Vec<String> = l.split_whitespace().map(|x| x.to_string()).collect();
        if w.is_empty() { continue; }
        match w[0].as_str() {
            "policy" => { if w[1] == "random" { s.policy = Some(w[2].parse().unwrap()); } }
            "init" => s.init.push(w[1..].to_vec()),
            "tick" => s.ticks_after_init += w[1].parse::<u64>().unwrap(),
            "t1" => s.t1 = w[1..].to_vec(),
            "park" => s.park = w[1].parse().unwrap(),
            "t2" => s.t2.push(w[1..].to_vec()),
            "final" => s.fin.push(w[1..].to_vec()),
            _ => {}
        }
    }
    let c = concurrent(&s);
    let c_cmp = c.replace(" (park point not reached)", "");
    let a = sequential(&s, true);
    let b = sequential(&s, false);
    println!("concurrent {}", c);
    println!("seq12 {}", a);
    println!("seq21 {}", b);
    println!("linearizable {}", c_cmp == a || c_cmp == b);
}
