pub fn main(_args: &[String]) { eprintln!("conc driver not built yet"); std::process::exit(3); }
