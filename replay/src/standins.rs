//! Differential smoke test of the stand-in contracts (specs/prelude_bytes.rs, prelude_store.rs) against the REAL
//! `bytes` and `dashmap` crates on pseudo-random operation sequences.  A cheap guard against a mis-stated assumed
//! contract; it is not part of any proof.   usage: replay standins <seed> <sequences>
use bytes::{Buf, BufMut, BytesMut};
use dashmap::DashMap;
use std::collections::HashMap;

struct Lcg(u64);
impl Lcg { fn next(&mut self) -> u64 { self.0 = self.0.wrapping_mul(6364136223846793005).wrapping_add(1442695040888963407); self.0 >> 33 } }

fn bytes_sequence(r: &mut Lcg) -> Result<usize, String> {
    let mut b = BytesMut::with_capacity((r.next() % 64) as usize);
    let mut m: Vec<u8> = Vec::new();
    let mut n = 0;
    for _ in 0..60 {
        n += 1;
        match r.next() % 14 {
            0 => { let x = r.next() as u8; b.put_u8(x); m.push(x); }
            1 => { let x = r.next() as u16; b.put_u16(x); m.extend_from_slice(&x.to_be_bytes()); }
            2 => { let x = r.next() as u32; b.put_u32(x); m.extend_from_slice(&x.to_be_bytes()); }
            3 => { let x = r.next().wrapping_mul(r.next()); b.put_u64(x); m.extend_from_slice(&x.to_be_bytes()); }
            4 => { let s: Vec<u8> = (0..(r.next() % 9)).map(|_| r.next() as u8).collect(); b.put_slice(&s); m.extend_from_slice(&s); }
            5 => { let s: Vec<u8> = (0..(r.next() % 9)).map(|_| r.next() as u8).collect(); b.extend_from_slice(&s); m.extend_from_slice(&s); }
            6 => if m.len() >= 1 { let x = b.get_u8(); if x != m[0] { return Err("get_u8".into()); } m.drain(..1); }
            7 => if m.len() >= 2 { let x = b.get_u16(); if x != u16::from_be_bytes([m[0], m[1]]) { return Err("get_u16".into()); } m.drain(..2); }
            8 => if m.len() >= 4 { let x = b.get_u32(); if x != u32::from_be_bytes([m[0], m[1], m[2], m[3]]) { return Err("get_u32".into()); } m.drain(..4); }
            9 => if m.len() >= 8 { let x = b.get_u64(); let mut a = [0u8; 8]; a.copy_from_slice(&m[..8]); if x != u64::from_be_bytes(a) { return Err("get_u64".into()); } m.drain(..8); }
            10 => { let at = (r.next() as usize) % (m.len() + 1); let head = b.split_to(at); let fr = head.freeze(); if fr[..] != m[..at] { return Err("split_to head".into()); } m.drain(..at); }
            11 => { let at = (r.next() as usize) % (m.len() + 1); let tail = b.split_off(at); if tail[..] != m[at..] { return Err("split_off tail".into()); } m.truncate(at); }
            12 => { let k = (r.next() as usize) % (m.len() + 1); b.advance(k); m.drain(..k); }
            _ => { let k = (r.next() % 40) as usize; let before = b.len(); b.reserve(k); if b.len() != before || b.capacity() < before + k { return Err("reserve".into()); } if r.next() % 7 == 0 { b.clear(); m.clear(); } }
        }
        if b[..] != m[..] || b.len() != m.len() || b.is_empty() != m.is_empty() { return Err(format!("view differs after step {}", n)); }
    }
    Ok(n)
}

fn dashmap_sequence(r: &mut Lcg) -> Result<usize, String> {
    let d: DashMap<u8, (u64, u32)> = DashMap::new();
    let mut m: HashMap<u8, (u64, u32)> = HashMap::new();
    let mut n = 0;
    for _ in 0..60 {
        n += 1;
        let k = (r.next() % 5) as u8;
        match r.next() % 8 {
            0 => { let v = (r.next(), r.next() as u32); d.insert(k, v); m.insert(k, v); }
            1 => { let a = d.get(&k).map(|g| *g); if a != m.get(&k).copied() { return Err("get".into()); } }
            2 => { let v = (r.next(), 7u32); let hit = match d.get_mut(&k) { Some(mut g) => { *g = v; true } None => false }; if hit != m.contains_key(&k) { return Err("get_mut presence".into()); } if hit { m.insert(k, v); } }
            3 => { let a = d.remove(&k); let b = m.remove(&k); if a.map(|x| x.1) != b { return Err("remove".into()); } }
            4 => { let thr = r.next() as u32; let a = d.remove_if(&k, |_, v| v.1 > thr); let sel = m.get(&k).map(|v| v.1 > thr).unwrap_or(false); if a.is_some() != sel { return Err("remove_if selection".into()); } if sel { m.remove(&k); } }
            5 => { let t = (r.next() % 9) as u32; d.alter_all(|_, mut v| { v.1 = t; v }); for v in m.values_mut() { v.1 = t; } }
            6 => { if r.next() % 5 == 0 { d.clear(); m.clear(); } }
            _ => { if d.len() != m.len() || d.is_empty() != m.is_empty() { return Err("len".into()); } }
        }
        if d.len() != m.len() { return Err(format!("size differs after step {}", n)); }
        for (kk, vv) in &m { if d.get(kk).map(|g| *g) != Some(*vv) { return Err(format!("content differs after step {}", n)); } }
    }
    Ok(n)
}

pub fn main(args: &[String]) {
    let seed: u64 = args.get(0).and_then(|s| s.parse().ok()).unwrap_or(1);
    let seqs: usize = args.get(1).and_then(|s| s.parse().ok()).unwrap_or(300);
    let mut r = Lcg(seed.wrapping_mul(2654435761).wrapping_add(12345));
    let mut steps = 0;
    for i in 0..seqs {
        match bytes_sequence(&mut r) { Ok(n) => steps += n, Err(e) => { println!("standins MISMATCH bytes sequence {}: {}", i, e); std::process::exit(1); } }
        match dashmap_sequence(&mut r) { Ok(n) => steps += n, Err(e) => { println!("standins MISMATCH dashmap sequence {}: {}", i, e); std::process::exit(1); } }
    }
    println!("standins ok sequences={} steps={}", 2 * seqs, steps);
}
