//! Session runner: feeds byte chunks to the real decoder, executes decoded requests with the real
//! handler on the real store (injected clock), encodes responses with the real encoder.
//! Input (stdin), one directive per line:
//!   limit <u32>            item size limit for the codec (default 1048576)
//!   policy none | random <bytes>
//!   feed <hex>             append a chunk to the connection buffer, then decode/execute until the
//!                          decoder asks for more bytes or fails
//!   tick <n>               advance the injected clock by n seconds
//!   conn                   start a second, fresh decoder (new connection) on the same store
//! Output (stdout): events  `req <Debug>` `resp <hex>` `silent` `err <text>` `left <n>` `closed`
use bytes::BytesMut;
use memcrs::cache::cache::Cache;
use memcrs::memcache::eviction_policy::EvictionPolicy;
use memcrs::memcache::builder::{MemcacheStoreBuilder, MemcacheStoreConfig};
use memcrs::memcache::store::MemcStore;
use memcrs::memcache_server::handler::BinaryHandler;
use memcrs::protocol::binary_codec::{BinaryRequest, BinaryResponse, MemcacheBinaryCodec};
use memcrs::server::timer::Timer;
use std::io::BufRead;
use std::sync::atomic::{AtomicU64, Ordering};
use std::sync::Arc;
use tokio_util::codec::Decoder;

mod conc;
mod sock;
mod standins;
mod clock;

pub struct TestTimer(pub AtomicU64);
impl Timer for TestTimer {
    fn timestamp(&self) -> u64 { self.0.load(Ordering::SeqCst) }
}

pub fn unhex(s: &str) -> Vec<u8> {
    let s: Vec<u8> = s.bytes().filter(|c| !c.is_ascii_whitespace()).collect();
    s.chunks(2).map(|p| u8::from_str_radix(std::str::from_utf8(p).unwrap(), 16).unwrap()).collect()
}
pub fn hex(b: &[u8]) -> String { b.iter().map(|x| format!("{:02x}", x)).collect() }

fn main() {
    let args: Vec<String> = std::env::args().collect();
    if args.len() > 1 && args[1] == "conc" { conc::main(&args[2..]); return; }
    if args.len() > 1 && args[1] == "sock" { sock::main(&args[2..]); return; }
    if args.len() > 1 && args[1] == "clock" { clock::main(&args[2..]); return; }
    if args.len() > 1 && args[1] == "standins" { standins::main(&args[2..]); return; }
    // configuration lines (limit / policy) come first; everything after them is processed line by line, and
    // each processed line is acknowledged with `done` so that a caller can drive the session interactively
    let stdin = std::io::stdin();
    let mut input = stdin.lock().lines();
    let mut limit: u32 = 1048576;
    let mut policy = EvictionPolicy::None;
    let mut mem_limit: u64 = u64::MAX;
    let mut pending: Option<String> = None;
    while let Some(Ok(l)) = input.next() {
        let w: Vec<&str> = l.split_whitespace().collect();
        if w.is_empty() { continue; }
        match w[0] {
            "limit" => limit = w[1].parse().unwrap(),
            "policy" => { if w[1] == "random" { policy = EvictionPolicy::Random; mem_limit = w[2].parse().unwrap(); } }
            _ => { pending = Some(l.clone()); break; }
        }
    }
    let timer = Arc::new(TestTimer(AtomicU64::new(0)));
    let cache: Arc<dyn Cache + Send + Sync> = MemcacheStoreBuilder::from_config(MemcacheStoreConfig::new(mem_limit, policy), timer.clone());
    let store = Arc::new(MemcStore::new(cache.clone()));
    let handler = BinaryHandler::new(store);
    let mut codec = MemcacheBinaryCodec::new(limit);
    let mut buf = BytesMut::with_capacity(4096);
    let mut closed = false;
    let mut skip_left: usize = 0;
    let rest = pending.into_iter().chain(input.map(|l| l.unwrap()));
    for l in rest {
        let w: Vec<&str> = l.split_whitespace().collect();
        if w.is_empty() { continue; }
        match w[0] {
            "tick" => { timer.0.fetch_add(w[1].parse().unwrap(), Ordering::SeqCst); }
            "conn" => { codec = MemcacheBinaryCodec::new(limit); buf = BytesMut::with_capacity(4096); closed = false; println!("conn"); }
            "len" => { println!("len {}", cache.len()); }
            "feed" => {
                if closed { println!("ignored-after-close"); continue; }
                let mut chunk = unhex(w.get(1).copied().unwrap_or(""));
                // the connection layer discards the body of an oversized request (C13); this driver has no connection
                // layer, so it does the same bookkeeping here to stay a reference for pipelines with oversized requests
                if skip_left > 0 { let n = std::cmp::min(skip_left, chunk.len()); chunk.drain(..n); skip_left -= n; }
                buf.extend_from_slice(&chunk);
                loop {
                    let r = std::panic::catch_unwind(std::panic::AssertUnwindSafe(|| codec.decode(&mut buf)));
                    let r = match r { Ok(r) => r, Err(_) => { println!("panic decode"); closed = true; break; } };
                    match r {
                        Ok(Some(req)) => {
                            println!("req {:?}", req);
                            if let BinaryRequest::ItemTooLarge(_) = &req {
                                // header fields are pub(crate): read body_length from the Debug text
                                let d = format!("{:?}", req);
                                let body: usize = d.split("body_length: ").nth(1).and_then(|t| t.split(|c: char| !c.is_ascii_digit()).next()).and_then(|t| t.parse().ok()).unwrap_or(0);
                                let n = std::cmp::min(body, buf.len());
                                bytes::Buf::advance(&mut buf, n);
                                skip_left = body - n;
                            }
                            if let BinaryRequest::QuitQuietly(_) = req { println!("closed"); closed = true; break; }
                            let resp = std::panic::catch_unwind(std::panic::AssertUnwindSafe(|| handler.handle_request(req)));
                            let resp = match resp { Ok(r) => r, Err(_) => { println!("panic handler"); closed = true; break; } };
                            match resp {
                                Some(resp) => {
                                    let msg = codec.encode_message(&resp);
                                    let mut out = BytesMut::new();
                                    // ResponseMessage.data is pub(crate): use the Encoder impl for the bytes
                                    let _ = msg;
                                    let quit = matches!(resp, BinaryResponse::Quit(_));
                                    use tokio_util::codec::Encoder;
                                    codec.encode(resp, &mut out).unwrap();
                                    println!("resp {}", hex(&out));
                                    if quit { println!("closed"); closed = true; break; }
                                }
                                None => println!("silent"),
                            }
                        }
                        Ok(None) => { println!("more left={}", buf.len()); break; }
                        Err(e) => { println!("err {}", e); closed = true; break; }
                    }
                }
            }
            _ => {}
        }
        println!("done");
        use std::io::Write;
        std::io::stdout().flush().unwrap();
    }
}
