//! Socket driver: starts the REAL MemcacheTcpServer (accept loop, Client::handle, connection, codec,
//! handler, store) on a loopback port and plays a script against it over TCP.
//! stdin directives:  limit <u32> | timeout <secs> | send <hex> | sleep <ms> | recv <idle-ms> | shutdown_wr | conn | tick <secs>
//!                    conn        close the current connection (orderly) and open a new one
//!                    conn_keep   open a new connection and keep the previous one open (it is not read any more)
//!                    rst         reset the current connection (SO_LINGER 0 + close) and open a new one
//!                    rstconn <n> n times: connect and reset at once, without sending a byte (the current connection stays)
//!                    sendn <n> <hex>   send the same bytes n times without reading (a client that does not read)
//! stdout events:     recv <hex> | eof | error <text> | conn
use memcrs::memcache::builder::{MemcacheStoreBuilder, MemcacheStoreConfig};
use memcrs::memcache::eviction_policy::EvictionPolicy;
use memcrs::memcache_server::memc_tcp::{MemcacheServerConfig, MemcacheTcpServer};
use memcrs::server::timer::{SetableTimer, SystemTimer};
use std::io::{BufRead, Read, Write};
use std::net::TcpStream;
use std::sync::Arc;
use std::time::Duration;

fn reset(s: TcpStream) {
    let s2 = socket2::Socket::from(s);
    let _ = s2.set_linger(Some(Duration::from_secs(0)));
    drop(s2);
}

pub fn main(_args: &[String]) {
    let stdin = std::io::stdin();
    let lines: Vec<String> = stdin.lock().lines().map(|l| l.unwrap()).collect();
    let mut limit: u32 = 1048576;
    let mut timeout: u32 = 30;
    for l in &lines {
        let w: Vec<&str> = l.split_whitespace().collect();
        if w.len() >= 2 && w[0] == "limit" { limit = w[1].parse().unwrap(); }
        if w.len() >= 2 && w[0] == "timeout" { timeout = w[1].parse().unwrap(); }
    }
    let port: u16 = 20000 + (std::process::id() % 20000) as u16;
    let addr = format!("127.0.0.1:{}", port);
    let timer = Arc::new(SystemTimer::new());
    let clock = timer.clone();      // the server clock is advanced by `tick` only (nothing runs SystemTimer::run here)
    let store = MemcacheStoreBuilder::from_config(MemcacheStoreConfig::new(u64::MAX, EvictionPolicy::None), timer);
    let cfg = MemcacheServerConfig::new(timeout, 8, limit, 16);
    let addr2 = addr.clone();
    std::thread::spawn(move || {
        let rt = tokio::runtime::Builder::new_current_thread().enable_all().build().unwrap();
        rt.block_on(async move {
            let mut server = MemcacheTcpServer::new(cfg, store);
            let _ = server.run(addr2).await;
        });
    });
    let mut sock = None;
    for _ in 0..200 {
        match TcpStream::connect(&addr) { Ok(s) => { sock = Some(s); break; } Err(_) => std::thread::sleep(Duration::from_millis(10)) }
    }
    let mut sock = match sock { Some(s) => s, None => { println!("error cannot connect"); return; } };
    sock.set_nodelay(true).unwrap();
    let mut held: Vec<TcpStream> = Vec::new();
    for l in &lines {
        let w: Vec<&str> = l.split_whitespace().collect();
        if w.is_empty() { continue; }
        match w[0] {
            "send" => {
                let b = crate::unhex(w.get(1).copied().unwrap_or(""));
                if let Err(e) = sock.write_all(&b) { println!("error send {}", e); }
                let _ = sock.flush();
            }
            "sendn" => {
                // a client that sends and never reads: the writes themselves must not block this driver for ever
                let n: usize = w[1].parse().unwrap();
                let b = crate::unhex(w.get(2).copied().unwrap_or(""));
                sock.set_write_timeout(Some(Duration::from_millis(300))).unwrap();
                for _ in 0..n { if sock.write_all(&b).is_err() { break; } }
                sock.set_write_timeout(None).unwrap();
            }
            "sleep" => std::thread::sleep(Duration::from_millis(w[1].parse().unwrap())),
            "recv" => {
                let idle: u64 = w[1].parse().unwrap();
                sock.set_read_timeout(Some(Duration::from_millis(idle))).unwrap();
                let mut all = Vec::new();
                let mut eof = false;
                let mut buf = [0u8; 65536];
                loop {
                    match sock.read(&mut buf) {
                        Ok(0) => { eof = true; break; }
                        Ok(n) => all.extend_from_slice(&buf[..n]),
                        Err(_) => break,
                    }
                }
                println!("recv {}", crate::hex(&all));
                if eof { println!("eof"); }
            }
            "tick" => { for _ in 0..w[1].parse::<u64>().unwrap() { clock.add_second(); } }
            "shutdown_wr" => { let _ = sock.shutdown(std::net::Shutdown::Write); }
            "conn" | "conn_keep" | "rst" => {
                let fresh = match TcpStream::connect(&addr) { Ok(s) => s, Err(e) => { println!("error connect {}", e); continue; } };
                fresh.set_nodelay(true).unwrap();
                let old = std::mem::replace(&mut sock, fresh);
                match w[0] { "conn_keep" => held.push(old), "rst" => reset(old), _ => drop(old) }
                println!("conn");
            }
            "rstconn" => {
                for _ in 0..w[1].parse::<usize>().unwrap() {
                    if let Ok(s) = TcpStream::connect(&addr) { reset(s); }
                }
            }
            _ => {}
        }
    }
    drop(held);
}
