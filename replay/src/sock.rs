pub fn main(_args: &[String]) { eprintln!("sock driver not built yet"); std::process::exit(3); }
